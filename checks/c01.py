"""C01 - encode/decode round trip preserves every well-formed message.

Real code executed: Codec.encode, Codec._addTag, Codec.decode, FIXContainer.*, FIXMessage,
FIXSession.allocate_next_num_out, FIXProtocol44.repeating_groups (cells are generated from the
live table on every run).
"""
from asyncfix import FIXMessage, FMsg
from asyncfix.codec import Codec
from asyncfix.errors import FIXError
from asyncfix.message import FIXContainer
from asyncfix.session import FIXSession

from vfx.env import FIXED_TIME, PROTO
from vfx.run import Cell

HEADER = (8, 9, 10, 34, 35, 49, 52, 56)
LATIN = [(0xA0, 0xFF)]  # second code point range of "single-byte printable text"
GROUPS = {str(k): [str(m) for m in v] for k, v in PROTO.repeating_groups.items()}
GROUP_KEYS = sorted(int(k) for k in GROUPS)
MODES = ("normal", "possdup", "seqreset", "rawseq")


def shape(c):
    """Ordered (tag, value | [item shapes]) list of a container."""
    out = []
    for t, v in c.tags.items():
        if c.is_group(t):
            out.append((t, [shape(g) for g in c.get_group_list(t)]))
        else:
            out.append((t, v))
    return out


def _roundtrip(I, msg, sess, mode, carried, pre_out, expect_type, expect_body):
    codec = Codec(PROTO)
    try:
        enc = codec.encode(msg, sess, raw_seq_num=(mode == "rawseq"))
    except FIXError as e:
        I.check(False, f"encoder refused a well-formed message: {type(e).__name__}")
    # known finding: text that contains the frame-start marker (tag 58 + value 'FIX.', or a value
    # containing '8=FIX.') is cut by the decoder's search for the next frame
    I.exclude("c01.marker_in_text", enc.find("8=FIX.", 1) != -1)
    raw = enc.encode("latin-1")  # the decoder's own single-byte text convention
    try:
        d, used, rawout = codec.decode(raw)
    except Exception as e:
        I.check(False, f"decode raised {type(e).__name__} on an encoder-produced frame")
    I.check(d is not None, "decoder rejected an encoder-produced frame")
    I.check(used == len(raw), "decoder did not report the whole frame as consumed")
    I.check(rawout == raw, "decoder did not return the frame bytes unchanged")
    I.check(d.msg_type == expect_type, "message type changed")
    got = shape(d)
    seq_expected = str(pre_out) if mode == "normal" else str(carried)
    I.check(len(got) >= 8, "decoded message lost header fields")
    I.check(got[0] == ("8", "FIX.4.4") and got[1][0] == "9" and got[2] == ("35", str(expect_type)),
            "BeginString / BodyLength / MsgType not first")
    I.check(got[3] == ("49", sess.sender_comp_id) and got[4] == ("56", sess.target_comp_id),
            "decoded header does not carry the session's CompIDs")
    I.check(got[5] == ("34", seq_expected), "decoded MsgSeqNum is not the allocated / carried number")
    I.check(got[6] == ("52", FIXED_TIME), "SendingTime lost")
    I.check(got[-1][0] == "10", "CheckSum is not the last field")
    I.check(got[7:-1] == expect_body, "body fields / group structure changed in the round trip")
    if mode == "normal":
        I.check(sess.next_num_out == pre_out + 1, "outbound counter not advanced by exactly one")
    else:
        I.check(sess.next_num_out == pre_out, "retransmission / SequenceReset consumed a number")
    I.goal("roundtrip")
    return [enc, used, sess.next_num_out]


def _session(I, digits, symcomp=True):
    if symcomp:
        sender = I.str("sender", 1, 2)
        target = I.str("target", 1, 2)
    else:
        sender, target = "SND", "TGT"
    sess = FIXSession(1, target, sender)
    pre_out = I.int("next_out", 1, 10**digits - 1)
    sess.next_num_out = pre_out
    sess.next_num_in = 1
    return sess, pre_out


def _mode_fields(I, mode, digits):
    """Returns (msg_type, leading tags, expected leading body, carried number)."""
    carried = None
    if mode == "normal":
        return None, [], [], None
    carried = I.int("carried", 1, 10**digits - 1)
    if mode == "possdup":
        return None, [(43, "Y"), (34, carried)], [("43", "Y")], carried
    if mode == "seqreset":
        new = I.int("new_seq", 1, 10**digits - 1)
        return FMsg.SEQUENCERESET, [(34, carried), (123, "Y"), (36, new)], [("123", "Y"), ("36", str(new))], carried
    return None, [(34, carried)], [], carried


TYPES = ("D", "0", "AE", "zz")  # application, session, two-character standard, custom


def h_flat(I, mode, nfields, L, digits, symtag=False, symcomp=False, symtype=False, stale=False):
    sess, pre_out = _session(I, digits, symcomp)
    mtype, lead, lead_exp, carried = _mode_fields(I, mode, digits)
    if stale:
        # a new message may carry a left-over MsgSeqNum (e.g. a decoded message sent on) and / or an
        # explicit PossDupFlag=N: still a new message, numbered by the session
        k = I.choice("left_over_header", 4)
        if k in (1, 3):
            lead, lead_exp = lead + [(43, "N")], lead_exp + [("43", "N")]
        if k >= 2:
            lead = lead + [(34, I.int("stale_seq", 1, 10**digits - 1))]
    if mtype is None:
        mtype = TYPES[I.choice("msg_type_idx", len(TYPES))] if symtype else "D"
    msg = FIXMessage(mtype)
    for t, v in lead:
        msg.set(t, v)
    body = []
    tags = []
    for i in range(nfields):
        if symtag:
            tag = I.int(f"tag{i}", 1, 9999)
            for hdr in HEADER + (43, 123, 36):
                I.assume(tag != hdr)
            for gk in GROUP_KEYS:
                I.assume(tag != gk)
            for prev in tags:
                I.assume(tag != prev)
        else:
            tag = (58, 1, 11)[i]
        tags.append(tag)
        val = I.str(f"val{i}", 1, L, 0x20, 0x7E, LATIN)
        msg.set(tag, val)
        body.append((str(tag), val))
    return _roundtrip(I, msg, sess, mode, carried, pre_out, mtype, lead_exp + body)


def _item_spec(gkey, members, depth, nsym, sym_budget):
    """Members present in one item: (tag, 'v' | nested [item specs])."""
    spec = []
    for m in members:
        if m in GROUPS:
            if depth > 0:
                spec.append((m, [_item_spec(m, GROUPS[m], depth - 1, nsym, sym_budget)]))
        else:
            spec.append((m, "v"))
    return spec


def _build(I, spec, prefix, counter, nsym, L):
    """Instantiate an item spec: returns (FIXContainer, expected shape)."""
    c = FIXContainer()
    exp = []
    for tag, what in spec:
        if what == "v":
            counter[0] += 1
            if counter[1] < nsym:
                counter[1] += 1
                val = I.str(f"{prefix}v{counter[0]}", 1, L, 0x20, 0x7E, LATIN)
            else:
                val = "c%d" % counter[0]
            c.set(tag, val)
            exp.append((tag, val))
        else:
            items, iexp = [], []
            for k, sub in enumerate(what):
                g, e = _build(I, sub, f"{prefix}{tag}.{k}.", counter, nsym, L)
                items.append(g)
                iexp.append(e)
            c.set_group(tag, items)
            exp.append((tag, iexp))
    return c, exp


def group_shapes(gkey, tier):
    """Item-list shapes for one group of the table: list of (name, [item spec, ...])."""
    mem = GROUPS[gkey]
    plain = [m for m in mem if m not in GROUPS]
    first = mem[0]
    full = _item_spec(gkey, mem, 3, 0, 0)
    only_first = [(first, "v")]
    shapes = [("1full", [full]), ("2items", [full, only_first])]
    if len(plain) > 1:
        shapes.append(("first+last", [[(first, "v"), (plain[-1], "v")], full]))
    if tier == "thorough":
        shapes.append(("3items", [only_first, full, only_first]))
        for n in range(2, min(len(mem), 6)):
            pre = _item_spec(gkey, mem[:n], 3, 0, 0)
            if pre and pre[0][0] == first:
                shapes.append((f"prefix{n}", [pre, pre]))
    return shapes


def group_only_item(gkey):
    """First member followed *directly* by every group-valued member (no plain field in between)."""
    mem = GROUPS[gkey]
    nested = [m for m in mem if m in GROUPS]
    if len(nested) < 1:
        return None
    return [(mem[0], "v")] + [(m, [_item_spec(m, GROUPS[m], 3, 0, 0)]) for m in nested]


def h_adjacent(I, gkey, other, nsym, L):
    """Group (nested to full depth, item ending in its nested groups) *directly* followed by another
    message-level group, with no plain field between them or after them."""
    sess, pre_out = _session(I, 2, False)
    msg = FIXMessage("D")
    counter = [0, 0]
    spec = group_only_item(gkey) or _item_spec(gkey, GROUPS[gkey], 3, 0, 0)
    body = []
    items, iexp = [], []
    for k in range(2):
        g, e = _build(I, spec, f"i{k}.", counter, nsym, L)
        items.append(g)
        iexp.append(e)
    msg.set_group(gkey, items)
    body.append((gkey, iexp))
    g2, e2 = _build(I, _item_spec(other, GROUPS[other], 3, 0, 0), "o.", counter, nsym, L)
    msg.set_group(other, [g2])
    body.append((other, [e2]))
    return _roundtrip(I, msg, sess, "normal", None, pre_out, "D", body)


def h_group(I, gkey, items_spec, mode, nsym, L, digits, trailing):
    sess, pre_out = _session(I, digits, False)
    mtype, lead, lead_exp, carried = _mode_fields(I, mode, digits)
    if mtype is None:
        mtype = "D"
    msg = FIXMessage(mtype)
    for t, v in lead:
        msg.set(t, v)
    counter = [0, 0]
    items, iexp = [], []
    for k, spec in enumerate(items_spec):
        g, e = _build(I, spec, f"i{k}.", counter, nsym, L)
        items.append(g)
        iexp.append(e)
    msg.set(11, "before")
    msg.set_group(gkey, items)
    body = [("11", "before"), (gkey, iexp)]
    if trailing:
        msg.set(58, "after")
        body.append(("58", "after"))
    return _roundtrip(I, msg, sess, mode, carried, pre_out, mtype, lead_exp + body)


def cells(tier):
    quick = tier == "quick"
    digits = 6
    out = []
    valb = "printable single-byte text [0x20,0x7e] u [0xa0,0xff]"
    reg = ["c01.marker_in_text"]

    def flat(name, mode, nf, L, dg=digits, budget=900.0, **kw):
        out.append(Cell(f"flat/{name}", (lambda I: h_flat(I, mode, nf, L, dg, **kw)),
                        dict(fields=nf, values=f"1..{L} chars, {valb}", counters=f"< 10^{dg}", mode=mode,
                             tags="symbolic int 1..9999 outside header/group-key set" if kw.get("symtag") else "58,1,11",
                             msg_type=list(TYPES) if kw.get("symtype") else "D",
                             comp_ids="symbolic 1..2 chars" if kw.get("symcomp") else "fixed"),
                        goals=["roundtrip"], regions=reg, budget_s=budget))

    for mode in MODES:
        for nf, L in ((1, 4), (2, 2)) if quick else ((1, 5), (2, 3), (3, 2)):
            flat(f"values/{mode}/{nf}x{L}", mode, nf, L, dg=(digits if mode == "normal" else 2))
        flat(f"types+compids/{mode}", mode, 1, 1, dg=2, symtype=True, symcomp=True)
        if mode == "normal":
            flat("left-over-header/normal", mode, 1, 1, dg=2, stale=True)
        if mode != "normal":
            flat(f"counters/{mode}", mode, 1, 1, dg=(4 if mode == "seqreset" else 6))
    flat("tags/normal", "normal", 1, 2, dg=1, symtag=True)
    if not quick:
        flat("values/normal/1x6", "normal", 1, 6, budget=3000.0)
        flat("values/normal/1x7", "normal", 1, 7, dg=1, budget=3000.0)
    for gkey in sorted(GROUPS, key=int):
        for sname, spec in group_shapes(gkey, tier):
            modes = ("normal",) if (quick or sname != "1full") else ("normal", "possdup")
            for mode in modes:
                nsym, L = (3, 2) if quick else (3, 3)
                out.append(Cell(f"group/{gkey}/{sname}/{mode}",
                                (lambda I, g=gkey, s=spec, m=mode, n=nsym, l=L:
                                 h_group(I, g, s, m, n, l, 3, True)),
                                dict(group=gkey, shape=sname, members=len(GROUPS[gkey]),
                                     symbolic_values=nsym, values=f"1..{L} chars, {valb}", mode=mode,
                                     counters="< 10^3", nesting="to the depth of the table"),
                                goals=["roundtrip"], regions=reg))
    for gkey in sorted(GROUPS, key=int):
        if not any(m in GROUPS for m in GROUPS[gkey]):
            continue
        other = "454" if gkey != "454" else "78"
        if other in GROUPS[gkey]:
            other = "555" if "555" not in GROUPS[gkey] else "711"
        out.append(Cell(f"adjacent/{gkey}+{other}", (lambda I, g=gkey, o=other: h_adjacent(I, g, o, 2, 2)),
                        dict(group=gkey, followed_directly_by=other, items="first member + every nested group, no plain field between groups",
                             symbolic_values=2, values=f"1..2 chars, {valb}"), goals=["roundtrip"], regions=reg))
    return out


ASSUMPTIONS = [
    "encoder str -> decoder bytes bridged with latin-1 (the decoder's own single-byte text convention); utf-8 transport conversion is C02's subject",
    "SendingTime comes from the stubbed clock (fixed string)",
    "well-formed w.r.t. the group table: every group item starts with the group's first member, members in table order",
]
STUBS = ["Codec.current_datetime -> fixed '20240101-00:00:00.000'"]
OUTSIDE = ["values containing SOH", "values longer than the stated length bound", "multi-byte text (C02)",
           "groups absent from the protocol table (documented RepeatingTagError behaviour)",
           "in group cells only the first few member values are symbolic (coverage.cells[*].bounds.symbolic_values), the others are fixed distinct strings"]
