"""C02 - every frame put on the wire is a well-formed FIX frame.

Real code executed: Codec.encode / _addTag (same message generator as C01) and
AsyncFIXConnection.send_msg (utf-8 conversion + transport write).  Oracle: the independent
reference framer vfx.env.ref_frame over the *bytes* (never the library's own decoder).
History cells re-run the session harnesses of C04/C05/C06/C11/C12 and pass every frame the
connection wrote through the same framer.
"""
from asyncfix import FIXMessage, FMsg
from asyncfix.codec import Codec
from asyncfix.connection import ConnectionRole, ConnectionState
from asyncfix.errors import FIXError
from asyncfix.session import FIXSession

from checks import c01
from vfx.env import PROTO, mkconn, ref_frame, run
from vfx.run import Cell
from vfx.sx import Violation

WIDE = [(0xA0, 0x7FF)]


def _non_ascii(*strings):
    for s in strings:
        for ch in s:
            if ord(ch) >= 0x80:
                return True
    return False


def _frame_ok(I, wire, what):
    why = ref_frame(wire)
    I.check(why is None, f"{what}: reference framer rejects the frame: {why}")
    I.goal("framed")


def h_encode(I, mode, nfields, L, digits, symcomp):
    """Encoder output, converted to bytes the way the connection does (utf-8)."""
    sess, pre_out = c01._session(I, digits, symcomp)
    mtype, lead, lead_exp, carried = c01._mode_fields(I, mode, digits)
    if mtype is None:
        mtype = c01.TYPES[I.choice("msg_type_idx", len(c01.TYPES))]
    msg = FIXMessage(mtype)
    for t, v in lead:
        msg.set(t, v)
    vals = []
    for i in range(nfields):
        v = I.str(f"val{i}", 1, L, 0x20, 0x7E, WIDE)
        vals.append(v)
        msg.set((58, 1, 11)[i], v)
    # known finding: BodyLength / CheckSum are computed over characters, the transport sends utf-8
    I.exclude("c02.non_ascii", _non_ascii(*vals, sess.sender_comp_id, sess.target_comp_id))
    try:
        enc = Codec(PROTO).encode(msg, sess, raw_seq_num=(mode == "rawseq"))
    except FIXError:
        I.goal("refused")
        I.check(sess.next_num_out == pre_out, "refused message consumed a sequence number")
        return ["refused"]
    except Exception as e:
        I.check(False, f"encode raised {type(e).__name__}")
    wire = enc.encode("utf-8")
    _frame_ok(I, wire, "Codec.encode")
    return [wire]


def h_group(I, gkey, spec, nsym, L):
    sess, pre_out = c01._session(I, 2, False)
    msg = FIXMessage("D")
    counter = [0, 0]
    items = []
    for k, sp in enumerate(spec):
        g, e = c01._build(I, sp, f"i{k}.", counter, nsym, L)
        items.append(g)
    msg.set_group(gkey, items)
    enc = Codec(PROTO).encode(msg, sess)
    wire = enc.encode("utf-8")
    I.exclude("c02.non_ascii", _non_ascii(enc))
    _frame_ok(I, wire, f"group {gkey}")
    return [wire]


def h_send(I, L):
    """send_msg from ACTIVE: the bytes handed to the transport."""
    nout = I.int("next_out", 1, 999999)
    c = mkconn(ConnectionState.ACTIVE, ConnectionRole.INITIATOR, 1, nout)
    kind = I.choice("kind", 4)
    v = I.str("val", 1, L, 0x20, 0x7E, WIDE)
    I.exclude("c02.non_ascii", _non_ascii(v))
    if kind == 0:
        m = FIXMessage("D", {58: v})
    elif kind == 1:
        m = FIXMessage(FMsg.HEARTBEAT, {112: v})
    elif kind == 2:
        m = FIXMessage(FMsg.LOGOUT, {58: v})
    else:
        m = FIXMessage(FMsg.SEQUENCERESET, {34: I.int("carried", 1, 999), 123: "Y", 36: 7, 58: v})
    w = c._socket_writer
    try:
        run(c.send_msg(m))
    except FIXError:
        I.goal("refused")
        I.check(len(w.frames) == 0, "send refused with an error but bytes were written")
        return ["refused"]
    except Exception as e:
        I.check(False, f"send_msg raised {type(e).__name__}")
    I.check(len(w.frames) == 1, "send_msg wrote other than exactly one frame")
    _frame_ok(I, w.frames[0], "send_msg")
    return [w.frames[0]]


def h_history_resend(I, n):
    """Session history: n sends (application / heartbeat), then an inbound ResendRequest: every
    frame the connection writes while replaying (retransmissions with PossDupFlag, gap fills) goes
    through the reference framer."""
    from checks import c05
    from vfx.env import inbound, install_loop, raw_for
    install_loop()
    first = I.int("next_out", 1, 7)
    c = mkconn(ConnectionState.ACTIVE, ConnectionRole.INITIATOR, 5, first)
    w = c._socket_writer
    for k in range(n):
        if I.bool(f"app{k}"):
            run(c.send_msg(FIXMessage("D", {11: I.str(f"clord{k}", 1, 2), 58: "text"})))
        else:
            run(c.send_msg(FIXMessage(FMsg.HEARTBEAT)))
    begin = I.int("begin", 1, 9)
    I.assume(begin < first + n)
    run(c._process_message(inbound("2", 5, {7: begin, 16: 0}), raw_for("2", 5)))
    I.check(len(c.log.exceptions) == 0, f"servicing the ResendRequest raised: {c.log.exceptions[:1]}")
    for f in w.frames:
        _frame_ok(I, f, "frame written during the session history")
    if len(w.frames) > n:
        I.goal("replayed")
    return [len(w.frames)]


def h_history_step(I, state, kind):
    """Session history: one arbitrary inbound message in an arbitrary logged-on state (C04's step
    harness); every frame written in reply (Heartbeat, ResendRequest, gap fill, Logout) is framed."""
    from checks import c04
    c, nin, nout, wm = c04.prestate(I, state, 2)
    s = c04.step(I, c, kind, 0, 2)
    for f in s["frames"]:
        _frame_ok(I, f, f"frame written in reply to an inbound {kind}")
    I.goal("stepped")
    return [len(s["frames"])]


def h_history_session(I):
    """Logon exchange (acceptor side), TestRequest from the watchdog, Logout on disconnect."""
    from vfx.env import inbound, install_loop, raw_for
    install_loop()
    nin = I.int("next_in", 1, 9)
    c = mkconn(ConnectionState.NETWORK_CONN_ESTABLISHED, ConnectionRole.UNKNOWN, nin, I.int("next_out", 1, 99))
    w = c._socket_writer
    seq = nin + I.choice("logon_seq_offset", 2)
    run(c._process_message(inbound("A", seq, {98: 0, 108: I.int("heartbeat", 1, 99)}), raw_for("A", seq)))
    if c._connection_state == ConnectionState.ACTIVE:
        run(c.send_test_req())
        run(c.disconnect(ConnectionState.DISCONNECTED_WCONN_TODAY, logout_message=I.str("logout_text", 0, 1)))
        I.goal("framed-session")
    for f in w.frames:
        _frame_ok(I, f, "session-level frame")
    return [len(w.frames)]


def h_send_large(I):
    """Large frames: every byte string handed to the transport is one whole well-formed frame
    (sizes are structural choices; the content is plain ASCII)."""
    sizes = (50, 1000, 4000, 4090, 4200, 8000, 20000, 70000)
    n = sizes[I.choice("value_length", len(sizes))]
    kind = I.choice("kind", 2)

    def body():
        c = mkconn(ConnectionState.ACTIVE, ConnectionRole.INITIATOR, 1, 7)
        w = c._socket_writer
        m = FIXMessage("B", {148: "headline", 58: "x" * n}) if kind == 0 else FIXMessage("D", {11: "c", 58: "y" * n})
        run(c.send_msg(m))
        return list(w.frames)
    frames = I.untraced(body)
    I.check(len(frames) == 1, f"a {n}-character value was handed to the transport in {len(frames)} pieces")
    _frame_ok(I, frames[0], "large frame")
    return [n, len(frames)]


def cells(tier):
    quick = tier == "quick"
    out = []
    reg = ["c02.non_ascii"]
    vb = "1..{} chars, code points [0x20,0x7e] u [0xa0,0x7ff]"
    for mode in c01.MODES:
        nf, L = (1, 3) if quick else (2, 3)
        out.append(Cell(f"encode/{mode}", (lambda I, m=mode, n=nf, l=L: h_encode(I, m, n, l, 6 if m == "normal" else 3, False)),
                        dict(mode=mode, fields=nf, values=vb.format(L), counters="< 10^6 (normal) / 10^3",
                             msg_type=list(c01.TYPES)), goals=["framed"], regions=reg))
    out.append(Cell("encode/compids", lambda I: h_encode(I, "normal", 1, 1, 2, True),
                    dict(comp_ids="symbolic 1..2 chars", values=vb.format(1)), goals=["framed"], regions=reg))
    for gkey in sorted(c01.GROUPS, key=int):
        for sname, spec in c01.group_shapes(gkey, tier)[: (1 if quick else 3)]:
            out.append(Cell(f"group/{gkey}/{sname}", (lambda I, g=gkey, s=spec: h_group(I, g, s, 2, 2)),
                            dict(group=gkey, shape=sname, symbolic_values=2, values=vb.format(2)),
                            goals=["framed"], regions=reg))
    from checks import c04
    for n in ((2,) if quick else (2, 3)):
        out.append(Cell(f"history/resend/{n}", (lambda I, n=n: h_history_resend(I, n)),
                        dict(sends=n, kinds="application (symbolic ClOrdID) / heartbeat", begin_seq_no="symbolic", next_out="symbolic in [1,7]"),
                        goals=["framed", "replayed"], budget_s=1800))
    for sname, st in c04.STATES.items():
        for kind in (("testrequest", "app", "gapfill") if quick else c04.KINDS):
            out.append(Cell(f"history/step/{sname}/{kind}", (lambda I, st=st, kind=kind: h_history_step(I, st, kind)),
                            dict(state=sname, inbound=kind, counters="symbolic, 2 digits"), goals=["stepped"], regions=reg, budget_s=1800))
    out.append(Cell("history/session", h_history_session, dict(logon="MsgSeqNum expected / one above; HeartBtInt symbolic", then="TestRequest, Logout with symbolic text"),
                    goals=["framed-session"], budget_s=1800))
    out.append(Cell("send_msg/large", h_send_large, dict(value_length="one of 50 / 1000 / 4000 / 4090 / 4200 / 8000 / 20000 / 70000 ASCII characters",
                                                         oracle="exactly one write per message, and it is a whole well-formed frame"), goals=["framed"]))
    out.append(Cell("send_msg", lambda I: h_send(I, 3 if quick else 4),
                    dict(values=vb.format(3 if quick else 4), counter="< 10^6",
                         kinds=["D", "0", "5", "4"], state="ACTIVE"), goals=["framed"], regions=reg))
    return out


ASSUMPTIONS = ["frames are converted to bytes with utf-8, as AsyncFIXConnection.send_msg does",
               "SendingTime comes from the stubbed clock"]
STUBS = ["Codec.current_datetime fixed", "StreamWriter -> recording Writer", "sqlite3 -> FakeSQLite"]
OUTSIDE = ["code points above 0x7ff", "values longer than the stated bound"]
