"""C03 - stream reassembly is independent of how the byte stream is chunked.

Real code executed: AsyncFIXConnection.socket_read_task (real loop, driven by the trampoline),
Codec.decode, and - in the 'session' cells - the real _process_message / _finalize_message /
Journaler on FakeSQLite.  The cut offsets are solver variables (realised one value per path, so an
exhausted tree = every offset); field values inside the frames and the garbage bytes are symbolic.
"""
from asyncfix import FIXMessage, FMsg
from asyncfix.codec import Codec
from asyncfix.connection import ConnectionRole, ConnectionState
from asyncfix.message import MessageDirection
from asyncfix.session import FIXSession

from vfx.env import PROTO, Reader, drive_reader, install_loop, mkconn
from vfx.run import Cell

MARK = b"8=FIX."


TRICKY = ("8=FIX.4.4", "a 8=FIX.4.4 9=12 b", "10=000", "9=", "x8=FIX.", "=", "8=FIX.4.4=9=5=35=0=10=000")


def frames(I, n, symvals, tricky=False):
    """n valid frames as a peer's encoder produces them (session and application types)."""
    peer = FIXSession(1, "S", "T")  # the peer's sender is our target
    peer.next_num_out = 1
    codec = Codec(PROTO)
    out = []
    specs = [
        lambda v: FIXMessage("D", {11: v, 55: "X", 453: [{448: "p", 447: "D"}, {448: "q"}]}),
        lambda v: FIXMessage(FMsg.HEARTBEAT, {112: v}),
        lambda v: FIXMessage("8", {37: v, 17: "e1", 150: "0", 39: "0"}),
        lambda v: FIXMessage(FMsg.TESTREQUEST, {112: v}),
    ]
    for i in range(n):
        if tricky:
            # field values that look like framing: frame-start marker, BodyLength / CheckSum look-alikes
            lst = TRICKY if tricky is True else TRICKY[:tricky]  # an int: only the first frame, only that many look-alikes
            if tricky is not True and i > 0:
                v = "v%d" % i
            else:
                v = lst[I.choice(f"tricky{i}", len(lst))] if I is not None else max(lst, key=len)
        else:
            v = I.str(f"val{i}", 1, symvals, 0x21, 0x7E) if (symvals and I is not None) else "v%d" % i
        out.append(codec.encode(specs[i % len(specs)](v), peer).encode("latin-1"))
    return out


def _conn(session):
    install_loop()
    c = mkconn(ConnectionState.ACTIVE, ConnectionRole.ACCEPTOR, 1, 1)
    got = []
    if not session:
        async def rec(msg, raw):
            got.append(raw)
        c._process_message = rec
    return c, got


def _deliver(I, chunks, fr, session, garbage_free=True):
    c, got = _conn(session)
    c._socket_reader = Reader([x for x in chunks if len(x) > 0])
    drive_reader(c)
    I.check(len(c.log.exceptions) == 0, f"reader swallowed an exception: {c.log.exceptions[:1]}")
    if session:
        rows = c._journaler.recover_messages(c._session, MessageDirection.INBOUND, 1, 10**9)
        I.check(rows == fr, "inbound journal rows differ from the frames sent (lost / duplicated / reordered)")
        apps = [m.get(11, None) or m.get(37, None) for m in c.app]
        return [len(rows), apps]
    I.check(len(got) == len(fr), f"{len(got)} of {len(fr)} frames handed over")
    I.check(got == fr, "frames handed over differ from the frames sent")
    I.check(len(c._msg_buffer) == 0, "receive buffer not empty after the last complete frame")
    return [len(got)]


def h_cuts(I, n, ncuts, lo, hi, symvals, session, tricky=False):
    fr = frames(I, n, symvals, tricky)
    stream = b"".join(fr)
    L = len(stream)
    hi = min(hi, L)
    c1 = lo + I.choice("cut1", hi - lo + 1)
    cuts = [c1]
    if ncuts == 2:
        c2 = c1 + I.choice("cut2", L - c1 + 1)
        cuts.append(c2)
    chunks = []
    prev = 0
    for c in cuts:
        chunks.append(stream[prev:c])
        prev = c
    chunks.append(stream[prev:])
    I.goal("cut")
    return _deliver(I, chunks, fr, session) + cuts


def h_near(I, n, width, symvals, session):
    """Two cuts, each within `width` bytes of a frame boundary (quick tier)."""
    fr = frames(I, n, symvals)
    stream = b"".join(fr)
    L = len(stream)
    bounds = [0]
    for f in fr:
        bounds.append(bounds[-1] + len(f))
    b1 = bounds[I.choice("boundary1", len(bounds))]
    b2 = bounds[I.choice("boundary2", len(bounds))]
    c1 = b1 - width + I.choice("d1", 2 * width + 1)
    c2 = b2 - width + I.choice("d2", 2 * width + 1)
    I.assume(0 <= c1 <= c2 <= L)
    I.goal("cut")
    return _deliver(I, [stream[:c1], stream[c1:c2], stream[c2:]], fr, session) + [c1, c2]


def h_bytewise(I, n, symvals, session, tricky=False):
    fr = frames(I, n, symvals, tricky)
    stream = b"".join(fr)
    I.goal("cut")
    return _deliver(I, [stream[i:i + 1] for i in range(len(stream))], fr, session)


def h_garbage(I, n, nG, where, window=None):
    """Marker-free garbage before / between / after the frames, plus one cut anywhere."""
    fr = frames(I, n, 0)
    g = I.bytes("garbage", 1, nG)
    I.assume(g.find(MARK) == -1)
    if where == "before":
        parts = [g] + fr
    elif where == "between":
        parts = [fr[0], g] + fr[1:]
    else:
        parts = fr + [g]
    stream = b"".join(parts)
    # garbage that ends in a partial marker glues to nothing: the next frame starts with '8'
    if window is None:
        c1 = I.choice("cut1", len(stream) + 1)
    else:
        gpos = sum(len(x) for x in parts[: parts.index(g)]) if where != "before" else 0
        lo = max(0, gpos - window)
        c1 = lo + I.choice("cut1", min(len(stream), gpos + len(g) + window) - lo + 1)
    c, got = _conn(False)
    c._socket_reader = Reader([x for x in (stream[:c1], stream[c1:]) if len(x) > 0])
    drive_reader(c)
    I.check(len(c.log.exceptions) == 0, f"reader swallowed an exception: {c.log.exceptions[:1]}")
    I.check(got == fr, "marker-free garbage cost a valid frame (or frames were altered)")
    I.goal("cut")
    return [len(got), c1]


def cells(tier):
    quick = tier == "quick"
    out = []

    def add(name, fn, bounds, budget=1800.0):
        out.append(Cell(name, fn, bounds, goals=["cut"], budget_s=budget))

    L2 = len(b"".join(frames(None, 2, 0)))
    L3 = len(b"".join(frames(None, 3, 0)))
    step = 16
    for lo in range(0, L2 + 1, 64):
        add(f"1cut/2frames/{lo}", (lambda I, lo=lo: h_cuts(I, 2, 1, lo, lo + 63, 0, False)),
            dict(frames=2, cuts=1, offsets=f"every offset in [{lo},{min(lo + 63, L2)}]"))
    add("1cut/3frames/session", lambda I: h_cuts(I, 3, 1, 0, 10**6, 0, True),
        dict(frames=3, cuts=1, offsets="every offset", processing="real _process_message + journal"))
    sv = 1 if quick else 2
    for lo in range(0, L2 + 2, 48):
        add(f"1cut/2frames/symbolic-values/{lo}", (lambda I, lo=lo: h_cuts(I, 2, 1, lo, lo + 47, sv, False)),
            dict(frames=2, cuts=1, offsets=f"every offset in [{lo},{lo + 47}]",
                 values=f"1..{sv} symbolic chars per frame (so lengths and checksums vary)"))
    if quick:
        add("2cut/near-boundaries/2frames", lambda I: h_near(I, 2, 7, 0, False),
            dict(frames=2, cuts=2, offsets="each within 7 bytes of a frame boundary"))
        add("2cut/near-boundaries/3frames/session", lambda I: h_near(I, 3, 5, 0, True),
            dict(frames=3, cuts=2, offsets="each within 5 bytes of a frame boundary", processing="real"))
    else:
        for lo in range(0, L2 + 1, step):
            add(f"2cut/2frames/{lo}", (lambda I, lo=lo: h_cuts(I, 2, 2, lo, lo + step - 1, 0, False)),
                dict(frames=2, cuts=2, offsets=f"first cut in [{lo},{lo + step - 1}], second anywhere after"))
        for lo in range(0, L3 + 1, 64):
            add(f"1cut/3frames/{lo}", (lambda I, lo=lo: h_cuts(I, 3, 1, lo, lo + 63, 1, False)),
                dict(frames=3, cuts=1, offsets=f"[{lo},{lo + 63}]", values="1 symbolic char per frame"))
        add("2cut/near-boundaries/3frames", lambda I: h_near(I, 3, 8, 0, True),
            dict(frames=3, cuts=2, offsets="each within 8 bytes of a frame boundary", processing="real"))
    LT = len(b"".join(frames(None, 2, 0, True)))
    for lo in range(0, LT + 1, 32):
        add(f"1cut/2frames/framing-lookalike-values/{lo}", (lambda I, lo=lo: h_cuts(I, 2, 1, lo, lo + 31, 0, False, True)),
            dict(frames=2, cuts=1, offsets=f"every offset in [{lo},{lo + 31}]",
                 values="per frame one of " + ", ".join(repr(t) for t in TRICKY) + " (solver-chosen)"))
    add("bytewise/2frames/framing-lookalike-values", lambda I: h_bytewise(I, 2, 0, False, True),
        dict(frames=2, reads="1 byte each", values="framing look-alikes (solver-chosen)"))
    if not quick:
        LT2 = len(b"".join(frames(None, 2, 0, 2)))
        for lo in range(0, LT2 + 1, 16):
            add(f"2cut/2frames/framing-lookalike-values/{lo}", (lambda I, lo=lo: h_cuts(I, 2, 2, lo, lo + 15, 0, False, 2)),
                dict(frames=2, cuts=2, offsets=f"first cut in [{lo},{lo + 15}], second anywhere after",
                     values="first frame: '8=FIX.4.4' or 'a 8=FIX.4.4 9=12 b' (solver-chosen)"), 3000.0)
    add("bytewise/3frames", lambda I: h_bytewise(I, 3, 0 if quick else 1, False),
        dict(frames=3, reads="1 byte each", values="concrete" if quick else "1 symbolic char per frame"))
    add("bytewise/3frames/session", lambda I: h_bytewise(I, 3, 0, True), dict(frames=3, reads="1 byte each", processing="real"))
    for where in ("before", "between", "after"):
        nG = 2 if quick else 5
        win = 8 if quick else None
        add(f"garbage/{where}", (lambda I, w=where: h_garbage(I, 2, nG, w, win)),
            dict(frames=2, garbage=f"1..{nG} arbitrary bytes without '8=FIX.'", cuts=1,
                 offsets="every offset within 8 bytes of the garbage" if quick else "every offset"))
    return out


class _NoSym:
    """frames(None, ...) support for sizing cells."""


ASSUMPTIONS = ["reads are scripted chunks delivered through the real socket_read_task; one read per chunk",
               "frames are produced by the real encoder for a peer session starting at MsgSeqNum 1"]
STUBS = ["asyncio.sleep/time in asyncfix.connection -> trampoline", "StreamReader -> scripted Reader", "sqlite3 -> FakeSQLite"]
OUTSIDE = ["3 or more cuts other than the all-1-byte partition", "streams of more than 3 frames",
           "garbage containing a complete frame-start marker (that is C10's malformed-frame case)"]
