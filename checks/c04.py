"""C04 - inbound application messages are delivered in order, once, never past a gap.

Real code executed: AsyncFIXConnection._process_message, _validate_integrity, _check_seqnum_gaps,
_process_seqreset, _process_resend, _process_testrequest, _process_heartbeat, _finalize_message,
FIXSession.set_next_num_in, Codec.encode for replies, Journaler on FakeSQLite.

Formulation: one inductive step from an *arbitrary logged-on state* (state, role, next-in,
next-out, resend watermark symbolic, under the representation invariant) with an arbitrary
inbound message (kind, MsgSeqNum, PossDupFlag, NewSeqNo, BeginSeqNo symbolic), plus 2-step
unrollings for 'no second ResendRequest until the gap is closed'.
"""
from asyncfix.errors import DuplicateSeqNoError
from asyncfix.connection import ConnectionRole, ConnectionState

from checks.sessmod import CS, KINDS, ROLES, build_inbound, check_frames_wellformed, wire_summary
from vfx.env import frame_fields, mkconn, run
from vfx.run import Cell

STATES = {"ACTIVE": CS.ACTIVE, "RESENDREQ_AWAITING": CS.RESENDREQ_AWAITING}


def prestate(I, state, digits):
    hi = 10**digits - 1
    nin = I.int("next_in", 1, hi)
    nout = I.int("next_out", 1, hi)
    role = ROLES[I.choice("role", 2)]
    c = mkconn(state, role, nin, nout)
    wm = 0
    if state == CS.RESENDREQ_AWAITING:
        # representation invariant: a gap [next_in, watermark] is open
        wm = I.int("watermark", 1, hi + 1)
        I.assume(wm > nin)
        c._max_seq_num_resend = wm
    c._connection_was_active = True
    return c, nin, nout, wm


def step(I, c, kind, k, digits):
    """Inject one inbound message; returns what was observed during this step."""
    pre_in = c._session.next_num_in
    pre_out = c._session.next_num_out
    pre_state = c._connection_state
    seq = I.int(f"seq{k}", 1, 10**digits + 5)
    msg, raw, par = build_inbound(I, kind, seq, k, nout=pre_out, digits=digits)
    n_app = len(c.app)
    w = c._socket_writer
    n_frames = len(w.frames)
    try:
        run(c._process_message(msg, raw))
    except DuplicateSeqNoError:
        # _finalize_message runs in _process_message's `finally`, so the journal's duplicate error
        # escapes to the reader task, which logs it and reads on (socket_read_task: except Exception).
        # It happens for the message that follows a SequenceReset whose own MsgSeqNum equals its
        # NewSeqNo: the reset's journal row occupies that number (known finding
        # c09.seqreset_stored_counter_lags, same root).  Delivery and the counter are judged as usual.
        I.note("DuplicateSeqNoError escaped _process_message (logged by the reader task)")
    frames = w.frames[n_frames:]
    delivered = c.app[n_app:]
    return dict(kind=kind, seq=seq, par=par, pre_in=pre_in, pre_out=pre_out, pre_state=pre_state,
                delivered=delivered, frames=frames, post_in=c._session.next_num_in,
                post_state=c._connection_state)


def oracle(I, c, s):
    kind, seq, pre, post = s["kind"], s["seq"], s["pre_in"], s["post_in"]
    disconnected = s["post_state"] <= CS.DISCONNECTED_BROKEN_CONN
    # known finding: a SequenceReset in reset mode (no GapFillFlag=Y) is also applied backwards
    # (pinned by tests/test_connection.py::test_sequence_reset_request__incoming_seq_num_toolow_ignored)
    if kind == "reset":
        I.exclude("c04.reset_backward", s["par"]["new"] < pre)
    # -- delivery: only the expected number, only application messages, at most once
    I.check(len(s["delivered"]) <= 1, "message handed to the application more than once")
    if len(s["delivered"]) == 1:
        I.goal("delivered")
        I.check(kind == "app", "session-level message handed to the application")
        I.check(seq == pre, f"application received MsgSeqNum != next expected number")
    elif kind == "app" and seq == pre and not disconnected:
        I.check(False, "expected application message was not delivered")
    # -- the expected number moves by one per accepted message, or to NewSeqNo of an honoured reset
    ok = post == pre or (post == pre + 1 and seq == pre and kind not in ("gapfill", "reset"))
    if kind == "gapfill":
        new = s["par"]["new"]
        honoured = seq == pre and new > pre  # only at the expected number, only forwards
        if honoured:
            I.check(post == new or disconnected, "gap fill at the expected number was not honoured")
            ok = ok or post == new
            I.goal("reset-honoured")
        else:
            I.check(post == pre, "gap fill not carrying the expected number (or not forward) moved the counter")
    elif kind == "reset":
        new = s["par"]["new"]
        if new > pre:  # reset mode ignores its own MsgSeqNum
            ok = ok or post == new
            I.goal("reset-honoured")
    I.check(ok, "next expected inbound number changed other than by one / to an honoured NewSeqNo")
    if seq != pre and kind not in ("gapfill", "reset"):
        I.check(post == pre, "inbound counter advanced although the message did not carry the expected number")
    if seq == pre and not disconnected and kind not in ("gapfill", "reset"):
        I.check(post == pre + 1, "accepted message did not advance the expected number by one")
    # -- gap handling
    rr = []
    for f in s["frames"]:
        d = frame_fields(f)
        if d.get("35") == b"2":
            rr.append(d)
    if kind == "reset":
        pass  # reset mode: MsgSeqNum is not subject to gap detection
    elif seq > pre and not disconnected:
        I.goal("gap")
        I.check(len(s["delivered"]) == 0, "message delivered past a gap")
        if s["pre_state"] != CS.RESENDREQ_AWAITING:
            I.check(len(rr) == 1, f"gap detected but {len(rr)} ResendRequests sent (exactly one expected)")
            I.check(int(rr[0].get("7")) == pre, "ResendRequest does not start at the expected number")
            I.check(s["post_state"] == CS.RESENDREQ_AWAITING, "not awaiting the resend after a gap")
            I.goal("resend-requested")
        else:
            I.check(len(rr) == 0, "second ResendRequest although the gap is still open")
            I.goal("gap-while-awaiting")
    else:
        I.check(len(rr) == 0, "ResendRequest sent without a gap")
    check_frames_wellformed(I, s["frames"])


def h_step(I, state, kinds, digits):
    c, nin, nout, wm = prestate(I, state, digits)
    kind = kinds[I.choice("kind", len(kinds))]
    s = step(I, c, kind, 0, digits)
    oracle(I, c, s)
    I.goal("step")
    return [len(s["delivered"]), s["post_in"], int(s["post_state"]), wire_summary(s["frames"]),
            c.log.exceptions, c._session.next_num_out]


def h_two(I, state, kinds1, kinds2, digits):
    """Two consecutive inbound messages: delivered numbers strictly increase; one ResendRequest
    per gap."""
    c, nin, nout, wm = prestate(I, state, digits)
    k1 = kinds1[I.choice("kind1", len(kinds1))]
    s1 = step(I, c, k1, 1, digits)
    oracle(I, c, s1)
    I.assume(c._connection_state > CS.DISCONNECTED_BROKEN_CONN)
    k2 = kinds2[I.choice("kind2", len(kinds2))]
    s2 = step(I, c, k2, 2, digits)
    oracle(I, c, s2)
    nums = [m.tags["34"] for m in c.app]
    for a, b in zip(nums, nums[1:]):
        I.check(a < b, "delivered MsgSeqNums are not strictly increasing")
    if len(nums) == 2:
        I.goal("two-delivered")
    I.goal("step")
    return [len(c.app), c._session.next_num_in, int(c._connection_state),
            wire_summary(c._socket_writer.frames if c._socket_writer else []), c.log.exceptions]


def cells(tier):
    quick = tier == "quick"
    digits = 2 if quick else 3
    out = []
    reg = ["c04.reset_backward"]
    b = dict(counters=f"next_in, next_out, watermark symbolic in [1,10^{digits}-1]", msg_seq_num=f"symbolic in [1,10^{digits}+5]",
             role="symbolic", possdup="symbolic", new_seq_no="symbolic", begin_seq_no="symbolic, below next_out")
    for sname, st in STATES.items():
        for kind in KINDS:
            goals = ["step"] + (["delivered"] if kind == "app" else []) + (["gap"] if kind != "reset" else [])
            dg = 1 if (quick and kind == "resendrequest") else digits
            out.append(Cell(f"step/{sname}/{kind}", (lambda I, st=st, kind=kind, dg=dg: h_step(I, st, [kind], dg)),
                            dict(b, state=sname, kind=kind, counters=f"symbolic in [1,10^{dg}-1]"), goals=goals, regions=reg, budget_s=1800))
    # (reset, app) includes the history in which the journal write of the second message fails
    # (the reset's own row occupies its number): delivery and counter must not depend on it
    pairs = [("app", "app"), ("app", "heartbeat"), ("gapfill", "app"), ("heartbeat", "app"), ("reset", "app")]
    if not quick:
        pairs += [("app", "gapfill"), ("testrequest", "app"), ("resendrequest", "app"), ("app", "resendrequest")]
    for a, bb in pairs:
        for sname, st in STATES.items():
            d2 = 1 if (quick or "resendrequest" in (a, bb) or a == "reset") else 2  # (2-digit counters with a ResendRequest or reset first step did not exhaust in 25-40 min)
            out.append(Cell(f"two/{sname}/{a}+{bb}", (lambda I, st=st, a=a, bb=bb, d2=d2: h_two(I, st, [a], [bb], d2)),
                            dict(b, state=sname, kinds=[a, bb], counters=f"symbolic in [1,10^{d2}-1]", msg_seq_num=f"symbolic in [1,10^{d2}+5]"),
                            goals=["step"], regions=reg, budget_s=2400))
    return out


ASSUMPTIONS = [
    "inbound messages are injected at _process_message as the decoder would hand them over, numeric header fields in 'integer view' (justified by C01)",
    "counterparty CompIDs are correct (integrity defects are C11's subject)",
    "ResendRequests injected here ask for ranges below next_out and the outbound journal is empty (servicing is C06's subject)",
    "pre-states satisfy the representation invariant: RESENDREQ_AWAITING => watermark > next_in; otherwise watermark == 0",
]
STUBS = ["transport -> recording Writer", "sqlite3 -> FakeSQLite", "clock fixed", "application hooks -> recorders"]
OUTSIDE = ["histories longer than two inbound messages from an arbitrary state", "states RESENDREQ_HANDLING / RECV_SEQNUM_TOO_HIGH as pre-states (transient inside one _process_message call)"]
