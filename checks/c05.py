"""C05 - outbound messages are numbered consecutively and journaled under that number.

Real code executed: AsyncFIXConnection.send_msg, send_test_req, Codec.encode,
FIXSession.allocate_next_num_out, Journaler.persist_msg / find_seq_no / recover_messages /
create_or_load on FakeSQLite; for sends caused by inbound traffic the C04 step harness is reused.
"""
from asyncfix import FIXMessage, FMsg
from asyncfix.connection import ConnectionRole, ConnectionState
from asyncfix.errors import FIXConnectionError
from asyncfix.message import MessageDirection

from checks import c04
from checks.sessmod import CS, KINDS, ROLES, check_frames_wellformed, wire_summary
from vfx.env import frame_fields, install_loop, mkconn, run
from vfx.run import Cell

ALL_STATES = list(ConnectionState)
SEND_KINDS = [("app", "D"), ("logon", FMsg.LOGON), ("logout", FMsg.LOGOUT), ("heartbeat", FMsg.HEARTBEAT),
              ("testrequest", FMsg.TESTREQUEST), ("resendrequest", FMsg.RESENDREQUEST), ("reject", FMsg.REJECT),
              ("custom", "zz")]
OUT = MessageDirection.OUTBOUND


def build_out(I, kname, mtype, k="", flags=True):
    m = FIXMessage(mtype)
    if kname == "app":
        # printable ASCII plus a Latin-1 and a Cyrillic letter (framing of non-ASCII text is C02's subject;
        # here: whatever the text, the number is allocated, sent and journaled - or nothing is)
        m.set(11, I.str(f"clord{k}", 1, 2, 32, 126, [(0xE9, 0xE9), (0x416, 0x416)]))
        # an application may mark an original transmission explicitly (PossDupFlag=N, PossResend=N/Y):
        # still a new message with a newly allocated number
        fl = I.choice(f"dup_flags{k}", 4) if flags else 0
        if fl in (1, 3):
            m.set(43, "N")
        if fl >= 2:
            m.set(97, "Y" if fl == 2 else "N")
    elif kname == "logon":
        m.set(98, 0)
        m.set(108, 30)
    elif kname == "testrequest":
        m.set(112, "T")
    elif kname == "resendrequest":
        m.set(7, 1)
        m.set(16, 0)
    elif kname == "reject":
        m.set(45, 3)
    return m


def journal_view(c):
    """(stored next-out as a fresh load sees it, outbound rows) through the public journal API."""
    sess = c._journaler.create_or_load(c._session.target_comp_id, c._session.sender_comp_id)
    rows = c._journaler.recover_messages(c._session, OUT, -10**9, 10**9)
    return sess.next_num_out, rows


def new_frames(frames):
    """Frames that are new messages (not retransmissions / SequenceReset)."""
    out = []
    for f in frames:
        d = frame_fields(f)
        if d.get("35") == b"4" or d.get("43") == b"Y":
            continue
        out.append((d, f))
    return out


def h_send(I, states, digits, role):
    state = states[I.choice("state", len(states))]
    nout = I.int("next_out", 1, 10**digits - 1)
    c = mkconn(state, role, 1, nout)
    if I.bool("test_req_pending"):
        c._test_req_id = 1_700_000_000
    kname, mtype = SEND_KINDS[I.choice("kind", len(SEND_KINDS))]
    m = build_out(I, kname, mtype)
    w = c._socket_writer
    stored0, rows0 = journal_view(c)
    I.check(stored0 == nout, "harness: stored counter differs from live counter before the send")
    try:
        run(c.send_msg(m))
        refused = False
    except FIXConnectionError:
        refused = True
    except Exception as e:
        I.check(False, f"send_msg raised {type(e).__name__} instead of the connection error")
    stored1, rows1 = journal_view(c)
    if refused:
        I.goal("refused")
        I.check(c._session.next_num_out == nout, "refused send consumed a sequence number")
        I.check(len(w.frames) == 0, "refused send wrote to the transport")
        I.check(stored1 == stored0 and rows1 == rows0, "refused send left a journal entry")
        # gating per the documented state rules
        I.check(state < CS.NETWORK_CONN_ESTABLISHED
                or (state == CS.NETWORK_CONN_ESTABLISHED and kname not in ("logon", "logout"))
                or (role == ConnectionRole.INITIATOR and state == CS.LOGON_INITIAL_SENT and kname != "logout")
                or (kname == "testrequest" and c._test_req_id is None),
                "send refused although the connection state allows it")
    else:
        I.goal("sent")
        I.check(state >= CS.NETWORK_CONN_ESTABLISHED, "message sent without an established connection")
        I.check(len(w.frames) == 1, "accepted send wrote other than exactly one frame")
        d = frame_fields(w.frames[0])
        I.check(int(d["34"]) == nout, "frame does not carry the session's next outbound number")
        I.check(c._session.next_num_out == nout + 1, "next outbound number not advanced by exactly one")
        I.check(stored1 == nout + 1, "stored next outbound number is not last sent + 1")
        I.check(c._journaler.recover_messages(c._session, OUT, nout, nout) == [w.frames[0]],
                "the exact bytes sent cannot be read back from the journal under their number")
        I.check(rows1 == rows0 + [w.frames[0]], "journal rows other than the new one changed")
        ascii_only = True
        for x in w.frames[0]:
            if x >= 0x80:
                ascii_only = False
        if ascii_only:
            check_frames_wellformed(I, w.frames)
    return [refused, int(c._connection_state), c._session.next_num_out, wire_summary(w.frames)]


def h_multi(I, n, digits):
    """n consecutive sends (application / heartbeat / test request via send_test_req) from ACTIVE."""
    install_loop()
    nout = I.int("next_out", 1, 10**digits - 1)
    c = mkconn(CS.ACTIVE, ROLES[I.choice("role", 2)], 1, nout)
    w = c._socket_writer
    expect = nout
    for k in range(n):
        kind = I.choice(f"kind{k}", 3)
        try:
            if kind == 0:
                run(c.send_msg(build_out(I, "app", "D", k, flags=False)))
            elif kind == 1:
                run(c.send_msg(FIXMessage(FMsg.HEARTBEAT)))
            else:
                run(c.send_test_req())
            expect += 1
        except FIXConnectionError:
            I.check(kind == 2 and k > 0, "send refused in ACTIVE")  # second TestRequest while one is pending
            I.goal("refused")
        I.check(c._session.next_num_out == expect, "live counter is not first + number of accepted sends")
        stored, rows = journal_view(c)
        I.check(stored == expect, "stored next outbound number != last sent + 1")
    nums = [int(frame_fields(f)["34"]) for f in w.frames]
    I.check(nums == list(range(nout, expect)), "wire numbers are not consecutive from the starting counter")
    stored, rows = journal_view(c)
    I.check(rows == w.frames, "journal rows differ from the frames sent")
    I.goal("sent")
    return [nums]


def h_inbound(I, state, kind, digits):
    """Sends caused by inbound traffic (replies, ResendRequests, gap fills): new messages take
    consecutive numbers, and after the step stored == live."""
    c, nin, nout, wm = c04.prestate(I, state, digits)
    s = c04.step(I, c, kind, 0, digits)
    I.exclude("c04.reset_backward", kind == "reset" and s["par"]["new"] < s["pre_in"])
    expect = nout
    for d, f in new_frames(s["frames"]):
        I.check(int(d["34"]) == expect, "new message caused by inbound traffic does not carry the next outbound number")
        expect += 1
        # servicing a ResendRequest rewrites the journal from BeginSeqNo on (C06's subject)
        if kind != "resendrequest" or int(d["34"]) < s["par"]["begin"]:
            I.check(c._journaler.recover_messages(c._session, OUT, int(d["34"]), int(d["34"])) == [f],
                    "frame sent in reply cannot be read back from the journal")
        I.goal("reply")
    I.check(c._session.next_num_out == expect, "outbound counter differs from first + number of new frames")
    if c._socket_writer is not None or True:
        stored, rows = journal_view(c)
        I.check(stored == expect, "stored next outbound number != live next outbound number after the step")
    I.goal("step")
    return [expect, wire_summary(s["frames"]), c.log.exceptions]


def h_after_resend(I, n, digits, role):
    """n sends (application / heartbeat, symbolic), an inbound ResendRequest for a symbolic range of
    them, then a new send: it must carry the number following the last new message, and the stored
    counter must follow."""
    install_loop()
    first = I.int("next_out", 1, (6 if digits == 1 else 10**digits - 1))
    c = mkconn(CS.ACTIVE, ROLES[role], 5, first)
    w = c._socket_writer
    for k in range(n):
        if I.bool(f"app{k}"):
            run(c.send_msg(FIXMessage("D", {11: "o%d" % k})))
        else:
            run(c.send_msg(FIXMessage(FMsg.HEARTBEAT)))
    nout = first + n
    I.check(c._session.next_num_out == nout, "counter after the initial sends")
    begin = I.int("begin", 1, 10**digits + 2)
    I.assume(begin < nout)  # ranges beyond what was sent are C06's subject
    nfr = len(w.frames)
    from vfx.env import inbound, raw_for
    run(c._process_message(inbound("2", 5, {7: begin, 16: 0}), raw_for("2", 5)))
    I.check(len(c.log.exceptions) == 0, f"servicing the ResendRequest raised: {c.log.exceptions[:1]}")
    I.check(c._session.next_num_out == nout, "next outbound number not restored after servicing a ResendRequest")
    stored, rows = journal_view(c)
    I.check(stored == nout, "stored next outbound number differs from the live one after servicing a ResendRequest")
    I.check(new_frames(w.frames[nfr:]) == [], "servicing a ResendRequest sent a new (non-retransmitted) message")
    nfr = len(w.frames)
    run(c.send_msg(FIXMessage("D", {11: "new"})))
    d = frame_fields(w.frames[nfr])
    I.check(int(d["34"]) == nout, "new message after a resend does not carry last sent + 1")
    stored, rows = journal_view(c)
    I.check(stored == nout + 1, "stored counter != last sent + 1 after the new message")
    I.check(c._journaler.recover_messages(c._session, OUT, nout, nout) == [w.frames[nfr]], "new message not journaled under its number")
    I.goal("resent")
    return [nout, wire_summary(w.frames)]


def cells(tier):
    quick = tier == "quick"
    digits = 3 if quick else 4  # (6 digits did not exhaust in 20 min per cell once non-ASCII values and the 43/97 flags were added)
    out = []
    groups = {"disconnected": [s for s in ALL_STATES if s < CS.NETWORK_CONN_ESTABLISHED],
              "handshake": [CS.NETWORK_CONN_ESTABLISHED, CS.LOGON_INITIAL_SENT, CS.LOGON_INITIAL_RECV, CS.LOGON_RESPONSE, CS.WAITING_FOR_LOGON],
              "resend": [CS.RESENDREQ_HANDLING, CS.RECV_SEQNUM_TOO_HIGH, CS.RESENDREQ_AWAITING],
              "active+others": [CS.ACTIVE, CS.NO_MSG_IN_INTERVAL, CS.AWAIT_PROC_TEST_REQ, CS.RECEIVED_LOGOUT, CS.INITIATE_LOGOUT]}
    for g, sts in groups.items():
        for role in ConnectionRole:
            out.append(Cell(f"send/{g}/{role.name}", (lambda I, sts=sts, role=role: h_send(I, sts, digits, role)),
                            dict(states=[s.name for s in sts], role=role.name, test_req_pending="symbolic",
                                 kinds=[k for k, _ in SEND_KINDS], next_out=f"symbolic in [1,10^{digits}-1]"),
                            goals=(["refused"] if g == "disconnected" else []) + (["sent"] if g != "disconnected" else []), budget_s=2400))
    out.append(Cell("multi", lambda I: h_multi(I, 2 if quick else 3, 2 if quick else 4),
                    dict(sends=2 if quick else 3, kinds=["app", "heartbeat", "send_test_req"], state="ACTIVE"), goals=["sent", "refused"]))
    for n in ((2,) if quick else (1, 2, 3)):
      for role in (0, 1):
        out.append(Cell(f"after-resend/{n}/{ROLES[role].name}", (lambda I, n=n, role=role: h_after_resend(I, n, 1 if (quick or n == 3) else 2, role)),
                        dict(sends=n, role=ROLES[role].name, kinds="application / heartbeat (symbolic per send)", begin_seq_no="symbolic, below next_out",
                             counters="symbolic in [1,6]" if (quick or n == 3) else "symbolic, 2 digits"), goals=["resent"], budget_s=2400))
    for sname, st in c04.STATES.items():
        for kind in (("testrequest", "app", "resendrequest") if quick else KINDS):
            out.append(Cell(f"inbound/{sname}/{kind}", (lambda I, st=st, kind=kind: h_inbound(I, st, kind, 1 if quick else 2)),
                            dict(state=sname, inbound_kind=kind, counters="symbolic, 1 digit" if quick else "symbolic, 2 digits"),
                            goals=["step"] + (["reply"] if kind == "testrequest" else []),
                            regions=["c04.reset_backward"], budget_s=1800))
    return out


ASSUMPTIONS = ["single-task histories (concurrent senders are C14's subject)",
               "retransmissions and SequenceReset (which carry their own number) are C06's subject",
               "inbound-caused sends reuse the C04 step harness and its assumptions"]
STUBS = ["transport -> recording Writer", "sqlite3 -> FakeSQLite", "clock -> virtual clock"]
OUTSIDE = ["sequences of more than 3 sends", "counters >= 10^4 (quick: 10^3) in the single-send cells"]
