"""C06 - a ResendRequest is answered completely, in order and without side effects.

Real code executed: AsyncFIXConnection._process_message -> _process_resend, should_replay hook,
Codec.decode(silent=False) of the journaled frames, Codec.encode (PossDup / SequenceReset number
preservation), send_msg, Journaler.recover_messages / set_seq_num / persist_msg on FakeSQLite.

The outbound journal is *built by the real code* (real sends from a symbolic starting number; holes
are cut out of the journal; 'leftover' cells service a first ResendRequest before the one under
test).  BeginSeqNo / EndSeqNo range over all integers in a window that contains 0, negative values,
the journaled range and numbers beyond it; the application's replay decision is a symbolic bool
per message.  The reply is compared with an independent reference computed from the slot kinds.
"""
from asyncfix import FIXMessage, FMsg
from asyncfix.connection import ConnectionRole
from asyncfix.message import MessageDirection

from checks.sessmod import CS, ROLES, check_frames_wellformed, wire_summary
from vfx.env import Conn, FakeDB, Writer, frame_fields, inbound, install_loop, raw_for, ref_fields, run
from vfx.run import Cell

OUT = MessageDirection.OUTBOUND
SESSION_TYPES = {b"0", b"1", b"2", b"4", b"5", b"A"}
NOT_BODY = ("8", "9", "10", "34", "52", "43", "122")


class RConn(Conn):
    """Connection whose replay filter answers with a symbolic bool per journaled message."""

    def __init__(self, I, journal):
        super().__init__(journal)
        self._I = I
        self.declined = {}

    async def should_replay(self, msg):
        n = int(msg["34"])
        if n not in self.declined:
            self.declined[n] = not self._I.bool(f"replay_{len(self.declined)}")
        return not self.declined[n]


class TickingClock:
    """SendingTime source that advances by one millisecond per message (so an OrigSendingTime taken
    from the wrong transmission is visible)."""

    def __init__(self):
        self.n = 0

    def __call__(self):
        self.n += 1
        return "20240101-00:00:%02d.%03d" % (self.n // 1000, self.n % 1000)


def setup(I, slots, state, symfirst=False):
    install_loop()
    from asyncfix.codec import Codec
    Codec.current_datetime = staticmethod(TickingClock())
    db = FakeDB()
    j = db.journaler()
    c = RConn(I, j)
    first = I.int("first_out", 1, 6) if symfirst else 3
    nin = 5
    j.set_seq_num(c._session, next_num_out=first, next_num_in=nin)
    c._connection_state = CS.ACTIVE
    c._connection_role = ROLES[0]
    c._connection_was_active = True
    c._socket_writer = Writer(c.events)
    c._socket_reader = object()
    kinds = {}
    orig = {}
    for k, slot in enumerate(slots):
        n = first + k
        if slot in ("app", "hole"):
            run(c.send_msg(FIXMessage("D", {11: "ord%d" % k, 55: "SYM", 38: str(10 + k)})))
        elif slot == "heartbeat":
            run(c.send_msg(FIXMessage(FMsg.HEARTBEAT)))
        elif slot == "testrequest":
            run(c.send_test_req())
            c._test_req_id = None
        elif slot == "logon":
            run(c.send_msg(FIXMessage(FMsg.LOGON, {98: 0, 108: 30})))
        kinds[n] = slot
        orig[n] = c._socket_writer.frames[-1]
        if slot == "hole":
            j.cursor.execute("DELETE FROM message WHERE seqNo = ? AND direction = ?", (n, OUT.value))
            j.conn.commit()
    if state == CS.RESENDREQ_AWAITING:
        c._connection_state = state
        c._max_seq_num_resend = nin + 4
    return c, first, nin, kinds, orig


def request(I, c, nin, begin, end, tag=""):
    w = c._socket_writer
    n0 = len(w.frames)
    run(c._process_message(inbound("2", nin, {7: begin, 16: end}), raw_for("2", nin)))
    return w.frames[n0:]


def body_of(frame):
    return [(t, v) for (t, v) in ref_fields(frame) if bytes(t).decode() not in NOT_BODY]


def check_reply(I, frames, begin, last, kinds, orig, declined):
    """The frames form a contiguous chain covering exactly [begin, last]."""
    pos = begin
    for f in frames:
        d = frame_fields(f)
        I.check(int(d["34"]) == pos, f"reply chain not contiguous: frame numbered {d['34']!r} where the chain stands at the next uncovered number")
        if d.get("35") == b"4":
            I.check(d.get("123") == b"Y", "SequenceReset in a resend reply without GapFillFlag=Y")
            new = int(d["36"])
            I.check(new > pos, "gap fill does not move forwards")
            I.check(new <= last + 1, "gap fill extends beyond the requested range")
            for n in range(pos, new):
                I.check(not (kinds.get(n) == "app" and not declined.get(n, False)),
                        f"journaled application message the application agreed to replay was gap-filled")
            pos = new
            I.goal("gap-fill")
        else:
            n = pos
            I.check(d.get("35") not in SESSION_TYPES, "session-level message retransmitted")
            I.check(kinds.get(n) == "app", "retransmission of a number that holds no journaled application message")
            I.check(not declined.get(n, False), "message the application declined was retransmitted")
            I.check(d.get("43") == b"Y", "retransmission without PossDupFlag=Y")
            od = frame_fields(orig[n])
            I.check(d.get("122") == od.get("52"), "OrigSendingTime is not the original SendingTime")
            I.check(body_of(f) == body_of(orig[n]), "retransmitted body differs from the original")
            pos = n + 1
            I.goal("retransmission")
    I.check(pos == last + 1, f"reply covers numbers up to {pos - 1!r} instead of the requested range end")


def journal_rows(c):
    return c._journaler.recover_messages(c._session, OUT, -10**9, 10**9)


def h_resend(I, slots, state, leftover=False, endmode="symbolic", symfirst=False):
    c, first, nin, kinds, orig = setup(I, slots, state, symfirst)
    nout = first + len(slots)
    last_sent = nout - 1
    if leftover:
        # an earlier ResendRequest for the whole range was already serviced
        request(I, c, nin, first, 0)
        I.check(c._session.next_num_out == nout, "harness: first request left the counter moved")
        nin += 1
        c._socket_writer.frames.clear()
    begin = I.int("begin", -1, 6 + len(slots) + 2)
    end = I.int("end", -1, 6 + len(slots) + 2) if endmode == "symbolic" else 0
    rows0 = journal_rows(c)
    state0 = c._connection_state
    frames = request(I, c, nin, begin, end)
    valid = begin >= 1 and begin <= last_sent and (end == 0 or end >= begin)
    # -- known findings (design level, see DESIGN.md): excluded regions
    I.exclude("c06.begin_beyond_last_sent", begin > last_sent)
    I.exclude("c06.bounded_end", end != 0 and end < last_sent)
    I.exclude("c06.second_request", leftover)
    I.check(len(c.log.exceptions) == 0, f"servicing the ResendRequest raised inside the connection: {c.log.exceptions[:1]}")
    I.check(c._session.next_num_out == nout, "next outbound number changed by servicing a ResendRequest")
    stored = c._journaler.create_or_load(c._session.target_comp_id, c._session.sender_comp_id).next_num_out
    I.check(stored == nout, "stored next outbound number changed by servicing a ResendRequest")
    I.check(c._connection_state == state0, "connection state changed by servicing a ResendRequest")
    check_frames_wellformed(I, frames)
    if not valid:
        I.goal("invalid-request")
        I.check(all(frame_fields(f).get("35") in (b"3", b"4") for f in frames) and len(frames) <= 1,
                "invalid ResendRequest answered with retransmissions")
        I.check(journal_rows(c) == rows0, "invalid ResendRequest changed the journal")
    else:
        I.goal("valid-request")
        last = last_sent if (end == 0 or end > last_sent) else end
        check_reply(I, frames, begin, last, kinds, orig, c.declined)
        rows1 = journal_rows(c)
        outside0 = [r for r in rows0 if not (begin <= _seq(r) <= last)]
        outside1 = [r for r in rows1 if not (begin <= _seq(r) <= last)]
        I.check(outside1 == outside0, "journaled messages outside the requested range changed")
    return [wire_summary(frames), c._session.next_num_out, int(c._connection_state), c.log.exceptions]


def _seq(frame):
    return int(frame_fields(frame)["34"])


def cells(tier):
    quick = tier == "quick"
    out = []
    reg = ["c06.begin_beyond_last_sent", "c06.bounded_end", "c06.second_request"]
    shapes = [("app",), ("app", "app"), ("app", "heartbeat"), ("heartbeat", "app"), ("app", "hole", "app"), ("logon", "app", "testrequest")]
    if not quick:
        shapes += [("app", "app", "app"), ("heartbeat", "heartbeat"), ("app", "heartbeat", "app", "hole"), ("hole", "app"), ("app", "testrequest", "app", "app")]
    for sh in shapes:
        for sname, st in (("ACTIVE", CS.ACTIVE), ("RESENDREQ_AWAITING", CS.RESENDREQ_AWAITING)):
            if quick and sname != "ACTIVE" and len(sh) != 2:
                continue
            for endmode in ("zero", "symbolic"):
                out.append(Cell(f"resend/{sname}/" + "-".join(sh) + f"/end-{endmode}", (lambda I, sh=sh, st=st, em=endmode: h_resend(I, sh, st, False, em)),
                                dict(journal=list(sh), first_number=3, begin_seq_no=f"symbolic in [-1,{8 + len(sh)}]",
                                     end_seq_no=(f"symbolic in [-1,{8 + len(sh)}]" if endmode == "symbolic" else 0),
                                     replay_filter="symbolic bool per message", state=sname),
                                goals=["valid-request", "invalid-request"], regions=reg, budget_s=2400))
    out.append(Cell("resend/first-number", lambda I: h_resend(I, ("heartbeat", "app"), CS.ACTIVE, False, "zero", True),
                    dict(journal=["heartbeat", "app"], first_number="symbolic in [1,6]", begin_seq_no="symbolic", end_seq_no=0),
                    goals=["valid-request", "invalid-request"], regions=reg, budget_s=2400))
    for sh in ((("app", "heartbeat"),) if quick else (("app", "heartbeat"), ("app", "app"), ("heartbeat", "app", "app"))):
        out.append(Cell("second-request/" + "-".join(sh), (lambda I, sh=sh: h_resend(I, sh, CS.ACTIVE, True)),
                        dict(journal=list(sh), history="a ResendRequest for the whole range was serviced before", begin_seq_no="symbolic", end_seq_no="symbolic"),
                        goals=[], regions=reg, budget_s=2400))
    return out


ASSUMPTIONS = ["the ResendRequest itself carries the expected MsgSeqNum and correct CompIDs (C04 / C11 cover the rest)",
               "journals are built by real sends from ACTIVE; holes are cut out with a DELETE on the journal database",
               "reply oracle: contiguous chain of retransmissions (own number, PossDupFlag, OrigSendingTime, identical body) and forward gap fills covering exactly [BeginSeqNo, min(EndSeqNo, last sent)]; gap fills need not be merged maximally"]
STUBS = ["transport -> recording Writer", "sqlite3 -> FakeSQLite", "SendingTime clock advancing 1 ms per message", "should_replay -> symbolic bool per message"]
OUTSIDE = ["journals longer than 4 messages", "starting numbers above 6 (one decimal digit)", "concurrent sends during the replay (C14)"]
