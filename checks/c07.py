"""C07 - no application message is lost, duplicated or reordered across connection loss.

Real code executed: two real AsyncFIXConnection endpoints (initiator A, acceptor B) with the real
codec, session logic and Journaler (FakeSQLite files that survive the breaks), connected by
in-memory pipes; send_msg, _process_message (Logon exchange, gap detection, ResendRequest
servicing, gap fills), disconnect; in the transport-error cells the real socket_read_task.

Fault schedules are macro-steps: in every phase each side accepts a symbolic number of
application sends; a break is characterised by how many in-flight frames were delivered in each
direction before it (TCP delivers prefixes) - solver-chosen counts - and by the order in which the
two directions are drained during recovery; then reconnect + Logon + run to quiescence.
"""
from asyncfix import FIXMessage, FMsg
from asyncfix.connection import ConnectionRole, ConnectionState

from vfx.env import BusyLoop, Conn, FakeDB, Reader, Writer, install_loop, run
from vfx.run import Cell

CS = ConnectionState


class Pipe(Writer):
    def __init__(self):
        super().__init__()
        self.q = []

    def write(self, data):
        super().write(data)
        self.q.append(data)


class World:
    """All data in these scenarios is concrete once the solver has chosen the schedule (counts,
    orders), so the endpoints run outside the tracer (`untraced`); every scheduling decision is
    still a solver-chosen value and the tree of schedules is exhausted."""

    def __init__(self, I=None):
        self.I = I
        if I is not None:
            I.untraced(self._init)
        else:
            self._init()

    def _u(self, fn):
        return self.I.untraced(fn) if self.I is not None else fn()

    def _init(self):
        install_loop()
        self.db = FakeDB()
        self.A = Conn(self.db.journaler("a.db"), "A", "B")
        self.B = Conn(self.db.journaler("b.db"), "B", "A")
        self.sent = {"A": [], "B": []}
        self.n = 0

    def connect(self):
        for x in (self.A, self.B):
            x._socket_writer = Pipe()
            x._socket_reader = object()
            x._connection_state = CS.NETWORK_CONN_ESTABLISHED
        self.A._connection_role = ConnectionRole.INITIATOR
        self.B._connection_role = ConnectionRole.ACCEPTOR

    def deliver(self, src, dst, n=None):
        k = 0
        while src._socket_writer is not None and src._socket_writer.q and (n is None or k < n):
            raw = src._socket_writer.q.pop(0)
            k += 1
            if dst._connection_state <= CS.DISCONNECTED_BROKEN_CONN:
                continue  # the reader task of a disconnected endpoint reads nothing
            msg, used, rawm = dst._codec.decode(raw)
            assert msg is not None, "harness: frame written by an endpoint does not decode"
            run(dst._process_message(msg, rawm))
        return k

    def quiesce(self, first="A"):
        order = (self.A, self.B) if first == "A" else (self.B, self.A)
        for _ in range(40):
            n = self.deliver(order[0], order[1]) + self.deliver(order[1], order[0])
            if n == 0:
                return
        raise AssertionError("no quiescence")

    def alternate(self):
        for _ in range(80):
            n = self.deliver(self.A, self.B, 1) + self.deliver(self.B, self.A, 1)
            if n == 0:
                return
        raise AssertionError("no quiescence")

    def logon(self, order):
        self.connect()
        self._u(lambda: run(self.A.send_msg(FIXMessage(FMsg.LOGON, {98: 0, 108: 30}))))
        if order == 2:
            self.alternate()
        else:
            self.quiesce("A" if order == 0 else "B")

    def send(self, side):
        c = self.A if side == "A" else self.B
        tag = "%s%d" % (side.lower(), self.n)
        self.n += 1
        run(c.send_msg(FIXMessage("D" if side == "A" else "8", {11: tag})))
        self.sent[side].append(tag)

    def brk(self):
        for x in (self.A, self.B):
            if x._socket_writer is not None:
                x._socket_writer.q.clear()
            run(x.disconnect(CS.DISCONNECTED_BROKEN_CONN))

    def check(self, I):
        gotA = [m.get(11) for m in self.A.app]
        gotB = [m.get(11) for m in self.B.app]
        I.check(gotB == self.sent["A"], f"acceptor application received {gotB} but the initiator's accepted sends were {self.sent['A']}")
        I.check(gotA == self.sent["B"], f"initiator application received {gotA} but the acceptor's accepted sends were {self.sent['B']}")
        I.check(self.A._connection_state == CS.ACTIVE and self.B._connection_state == CS.ACTIVE,
                f"not both ACTIVE at quiescence: {self.A._connection_state.name} / {self.B._connection_state.name}")
        I.check(self.A._session.next_num_in == self.B._session.next_num_out and self.B._session.next_num_in == self.A._session.next_num_out,
                "next expected inbound number of one side differs from the other side's next outbound number")
        I.check(len(self.A.log.exceptions) == 0 and len(self.B.log.exceptions) == 0,
                f"exception swallowed inside an endpoint: {(self.A.log.exceptions + self.B.log.exceptions)[:1]}")


class UWorld(World):
    """World whose operations run outside the tracer."""

    def connect(self):
        return self._u(lambda: World.connect(self))

    def deliver(self, src, dst, n=None):
        return self._u(lambda: World.deliver(self, src, dst, n))

    def quiesce(self, first="A"):
        return self._u(lambda: World.quiesce(self, first))

    def alternate(self):
        return self._u(lambda: World.alternate(self))

    def send(self, side):
        return self._u(lambda: World.send(self, side))

    def brk(self):
        return self._u(lambda: World.brk(self))

    def check(self, I):
        return self._u(lambda: World.check(self, I))

    def raw_send_logon(self):
        return self._u(lambda: run(self.A.send_msg(FIXMessage(FMsg.LOGON, {98: 0, 108: 30}))))


def phase(I, w, k, maxsend, fixed=None):
    """Both sides send; then a symbolic prefix of the in-flight frames gets through before the break."""
    if fixed is not None and k == 0:
        na, nb = fixed
    else:
        na = I.choice(f"sends_A{k}", maxsend + 1)
        nb = I.choice(f"sends_B{k}", maxsend + 1)
    first = I.choice(f"first_sender{k}", 2)
    for side, n in ((("A", na), ("B", nb)) if first == 0 else (("B", nb), ("A", na))):
        for _ in range(n):
            w.send(side)
    kab = I.choice(f"delivered_AB{k}", len(w.A._socket_writer.q) + 1)
    kba = I.choice(f"delivered_BA{k}", len(w.B._socket_writer.q) + 1)
    if I.choice(f"deliver_order{k}", 2) == 0:
        w.deliver(w.A, w.B, kab)
        w.deliver(w.B, w.A, kba)
    else:
        w.deliver(w.B, w.A, kba)
        w.deliver(w.A, w.B, kab)


def h_breaks(I, nbreaks, maxsend, recovery_break, fixed=None, rounds=3):
    w = UWorld(I)
    w.logon(0)
    for k in range(nbreaks):
        phase(I, w, k, maxsend, fixed)
        w.brk()
        if recovery_break and k == nbreaks - 1:
            # a further break in the middle of the recovery traffic of this one
            w.connect()
            w.raw_send_logon()
            for r in range(rounds):
                w.deliver(w.A, w.B, I.choice(f"recovery_AB{r}", 3))
                w.deliver(w.B, w.A, I.choice(f"recovery_BA{r}", 3))
            w.brk()
            I.goal("break-during-recovery")
        w.logon(I.choice(f"recovery_order{k}", 3))
    # a final exchange after recovery: both sides can still talk
    w.send("A")
    w.send("B")
    w.quiesce()
    # known finding: a second loss while the first one is being recovered
    w.check(I)
    I.goal("recovered")
    return [w.A._session.next_num_in, w.A._session.next_num_out, len(w.A.app), len(w.B.app)]


class FailingPipe(Pipe):
    """Transport that is lost while the endpoint is writing: from the k-th drain() on, drain raises
    the way asyncio's StreamWriter.drain does on a reset connection; later writes go nowhere."""

    def __init__(self, fail_at):
        super().__init__()
        self.fail_at, self.ndrain, self.failed = fail_at, 0, False

    def write(self, data):
        if self.failed:
            self.frames.append(data)
        else:
            super().write(data)

    async def drain(self):
        self.ndrain += 1
        if self.fail_at is not None and self.ndrain >= self.fail_at:
            self.failed = True
            raise ConnectionResetError("connection lost")


def h_break_in_replay(I, na, nb):
    """The connection is lost (drain raises) at a solver-chosen frame of the recovery traffic -
    the Logon, a ResendRequest, a retransmitted message or a gap fill - on a solver-chosen side.
    What was written before reaches the peer or not (symbolic).  Then both ends see the loss
    (disconnect, as the reader task does), reconnect + Logon + run to quiescence."""
    w = UWorld(I)
    w.logon(0)
    for _ in range(na):
        w.send("A")
    for _ in range(nb):
        w.send("B")
    w.deliver(w.A, w.B, I.choice("delivered_AB", na + 1))
    w.deliver(w.B, w.A, I.choice("delivered_BA", nb + 1))
    w.brk()
    w.connect()
    side = I.choice("failing_side", 2)
    fail_at = 1 + I.choice("failing_drain", 5)
    cut = I.choice("traffic_after_the_failure", 2)  # 0: nothing more is delivered, 1: frames in flight still arrive
    order = I.choice("drain_order", 2)

    def recover_with_failure():
        c = w.A if side == 0 else w.B
        fp = c._socket_writer = FailingPipe(fail_at)
        try:
            run(w.A.send_msg(FIXMessage(FMsg.LOGON, {98: 0, 108: 30})))
        except OSError:
            pass  # reported to the sending application
        pairs = ((w.A, w.B), (w.B, w.A)) if order == 0 else ((w.B, w.A), (w.A, w.B))
        for _ in range(60):
            n = 0
            for src, dst in pairs:
                while src._socket_writer is not None and src._socket_writer.q and not (fp.failed and cut == 0):
                    n += World.deliver(w, src, dst, 1)
            if n == 0:
                break
        else:
            raise AssertionError("no quiescence")
        if not fp.failed:
            fp.fail_at = None
            return "completed"
        # the failing side logged the transport error of its own write (expected); both ends now
        # see the loss
        for x in (w.A, w.B):
            x.log.exceptions[:] = [e for e in x.log.exceptions if not e.startswith("ConnectionResetError")]
        World.brk(w)
        return "failed"
    outcome = I.untraced(recover_with_failure)
    if outcome == "failed":
        I.goal("transport-failed-mid-recovery")
        w.logon(I.choice("recovery_order", 3))
    w.send("A")
    w.send("B")
    w.quiesce()
    w.check(I)
    I.goal("recovered")
    return [outcome, len(w.A.app), len(w.B.app)]


class ErrReader:
    """Reader that fails the way a broken transport does."""

    def __init__(self, kind):
        self.kind = kind

    async def read(self, n):
        if self.kind == 0:
            return b""
        if self.kind == 1:
            raise ConnectionResetError("reset by peer")
        raise OSError("network is down")


def h_read_error(I):
    """Each end sees the break as EOF, a connection reset or another transport error on read."""
    w = UWorld(I)
    w.logon(0)
    w.send("A")
    w.send("B")
    kab = I.choice("delivered_AB", 2)
    w.deliver(w.A, w.B, kab)
    kind_a, kind_b = I.choice("error_seen_by_A", 3), I.choice("error_seen_by_B", 3)
    for c, kind in ((w.A, kind_a), (w.B, kind_b)):
        def fail_read(c=c, kind=kind):
            c._socket_writer.q.clear()
            c._socket_reader = ErrReader(kind)
            co = c.socket_read_task()
            try:
                co.send(None)
                return True
            except BusyLoop:
                return False
            finally:
                co.close()
        I.check(I.untraced(fail_read), "reader task keeps failing on a transport error without disconnecting")
        I.check(c._connection_state <= CS.DISCONNECTED_BROKEN_CONN, "transport error on read did not disconnect the endpoint")
        I.check(sum(1 for e in c.events if e[0] == "disconnect") == 1, "disconnect not reported exactly once")
    I.untraced(lambda: (w.A.log.exceptions.clear(), w.B.log.exceptions.clear()))
    w.logon(0)
    w.quiesce()
    w.check(I)
    I.goal("recovered")
    return [kind_a, kind_b]


def cells(tier):
    quick = tier == "quick"
    out = []
    out.append(Cell("one-break", lambda I: h_breaks(I, 1, 2, False),
                    dict(breaks=1, sends_per_side="0..2 (symbolic)", delivered_before_break="symbolic prefix per direction", recovery_drain_order="A first / B first / alternating"),
                    goals=["recovered"], budget_s=2400))
    ms = 1 if quick else 2
    for na in range(ms + 1):
        for nb in range(ms + 1):
            if quick and na == 1 and nb == 1:
                continue
            out.append(Cell(f"two-breaks/a{na}b{nb}", (lambda I, na=na, nb=nb: h_breaks(I, 2, ms, False, (na, nb))),
                            dict(breaks=2, first_phase_sends=f"A {na}, B {nb}", later_sends_per_side=f"0..{ms} (symbolic)", delivered_before_break="symbolic prefix per direction"),
                            goals=["recovered"], budget_s=3000))
            out.append(Cell(f"break-during-recovery/a{na}b{nb}", (lambda I, na=na, nb=nb: h_breaks(I, 1, ms, True, (na, nb), 2 if quick else 3)),
                            dict(breaks="1 + one more in the middle of the recovery traffic", sends=f"A {na}, B {nb}",
                                 recovery_prefixes=f"{2 if quick else 3} rounds, 0..2 frames per direction each (symbolic)"),
                            goals=["recovered", "break-during-recovery"], regions=["c07.loss_during_recovery"], budget_s=3000))
    for na, nb in (((2, 0), (1, 1)) if quick else ((2, 0), (1, 1), (3, 0), (2, 1), (2, 2), (0, 3))):
        out.append(Cell(f"break-in-replay/a{na}b{nb}", (lambda I, na=na, nb=nb: h_break_in_replay(I, na, nb)),
                        dict(sends=f"A {na}, B {nb}", delivered_before_break="symbolic prefix per direction",
                             failure="drain() of the 1st..5th frame written during recovery raises ConnectionResetError, on A or B (symbolic); frames already written reach the peer or not (symbolic)"),
                        goals=["recovered", "transport-failed-mid-recovery"], budget_s=3000))
    out.append(Cell("read-error", h_read_error, dict(error_kinds="EOF / ConnectionResetError / OSError per end", delivered="0..1"), goals=["recovered"]))
    return out


ASSUMPTIONS = ["frames in flight are delivered as prefixes per direction (TCP); a break drops everything in flight both ways",
               "the same connection objects reconnect (restart with new objects is C09's subject); journals are FakeSQLite files that outlive the connections",
               "macro-step schedules: within a phase sends happen before deliveries; recovery is drained A-first, B-first or alternating (arbitrary per-frame interleavings are outside the claim)"]
STUBS = ["transport -> in-memory pipes", "sqlite3 -> FakeSQLite", "clock fixed", "asyncio.sleep -> trampoline"]
OUTSIDE = ["more than two breaks", "more than 2 sends per side per phase", "arbitrary per-frame interleavings, long random walks", "transport errors raised by write() itself (asyncio reports them from drain())"]
