"""C08 - the journal survives a process crash at any point.

Real code executed: Journaler.__init__, create_or_load, persist_msg, set_seq_num, sessions,
recover_messages, get_all_msgs on FakeSQLite.  The crash slot is a solver variable ranging over
every point before/after every SQL statement and every commit (plus 'no crash, normal close');
sequence numbers and counter arguments are symbolic.  After the crash a fresh Journaler is opened
on the committed image and compared with the reference model at the operation boundary before
and after the operation in flight.  Every path's witness (and every counterexample) is replayed
against the real sqlite3 on a real file, with the crash realised as os._exit() in a child process.
"""
from asyncfix.errors import DuplicateSeqNoError

from checks.jmodel import DIRS, IN, OUT, SESS, Ref, expect, msg_bytes, observe
from vfx import fakesql, realcrash, stubcheck
from vfx.env import FakeDB
from vfx.run import Cell

MAXSLOT = 64
_REAL = {}  # (outcome class) -> number of real-sqlite3 crash replays done in this process


def model_apply(ref, op):
    """The operation applied to the reference model (returns the new model)."""
    ref = ref.copy()
    kind = op[0]
    if kind in ("load", "reload"):
        ref.load(op[1])
    elif kind == "persist":
        _, si, d, seq, tag = op
        ref.persist(si, d, seq, msg_bytes(seq, tag))  # no-op if the number is already stored
    elif kind == "replace":
        _, si, d, seq, tag = op
        ref.replace(si, d, seq, msg_bytes(seq, tag))
    elif kind == "set":
        _, si, nout, nin = op
        ref.set_seq(si, nout, nin)
    return ref


def real_apply(j, sessions, keys, op):
    """The operation applied to the real Journaler (the session object is kept in step, as the
    connection does)."""
    kind = op[0]
    if kind in ("load", "reload"):
        si = op[1]
        t, s = SESS[si]
        sess = j.create_or_load(t, s)
        sessions[si] = sess
        keys[si] = sess.key
    elif kind == "persist":
        _, si, d, seq, tag = op
        try:
            j.persist_msg(msg_bytes(seq, tag), sessions[si], d)
            if d is OUT:
                sessions[si].next_num_out = seq + 1
            else:
                sessions[si].next_num_in = seq + 1
        except DuplicateSeqNoError:
            pass
    elif kind == "replace":
        _, si, d, seq, tag = op
        j.persist_msg(msg_bytes(seq, tag), sessions[si], d, replace=True)
    elif kind == "set":
        _, si, nout, nin = op
        j.set_seq_num(sessions[si], next_num_out=nout, next_num_in=nin)


def _state(j):
    """State of a freshly opened journal, without creating anything."""
    listing = j.sessions()
    keys = {}
    for si, (t, s) in enumerate(SESS):
        if (t, s) in listing:
            keys[si] = listing[(t, s)].key
    return observe(j, keys), sorted(keys)


def _expected(ref):
    keys = {si: None for si in ref.next_in}
    e = expect(ref, keys)
    return e, sorted(keys)


def _same(got, exp):
    (g, gk), (e, ek) = got, exp
    if gk != ek:
        return False
    if g["nsessions"] != e["nsessions"]:
        return False
    for si in gk:
        if g["counters"][si][:2] != e["counters"][si][:2] or g["listing"][si][:2] != e["listing"][si][:2]:
            return False
        for d in DIRS:
            if g["rows"][(si, d.value)] != e["rows"][(si, d.value)]:
                return False
    ga = [(q, m, d) for (q, m, d, s) in g["all"]]
    ea = [(q, m, d) for (q, m, d, s) in e["all"]]
    return ga == ea


def _script(ops):
    def script(factory, report):
        j = factory()
        sessions, keys = {}, {}
        report(0)
        for k, op in enumerate(ops):
            real_apply(j, sessions, keys, op)
            report(k + 1)
        del j
    return script


def _run_fake(ops, crash_at):
    """Returns (#completed steps incl. open, crashed, model before in-flight op, model after, db)."""
    db = FakeDB()
    db.mod.crash_at = crash_at
    sessions, keys = {}, {}
    done = 0
    before = after = Ref()
    crashed = False
    try:
        j = db.journaler("journal.db")
        done = 1
        for k, op in enumerate(ops):
            before, after = after, model_apply(after, op)
            real_apply(j, sessions, keys, op)
            done = k + 2
        before = after
        del j  # normal close: nothing may be lost
    except fakesql.Crash:
        crashed = True
    db.mod.crash_at = None
    return done, crashed, before, after, db


def h_crash(I, plan, lo, hi, slot_lo=1, slot_hi=MAXSLOT):
    ops = []
    for k, p in enumerate(plan):
        if p == "load":
            ops.append(("load", I.choice(f"sess{k}", 2)))
        elif p == "persist":
            ops.append(("persist", I.choice(f"sess{k}", 2), DIRS[I.choice(f"dir{k}", 2)], I.int(f"seq{k}", lo, hi), "r%d" % k))
        elif p == "replace":
            ops.append(("replace", I.choice(f"sess{k}", 2), DIRS[I.choice(f"dir{k}", 2)], I.int(f"seq{k}", lo, hi), "R%d" % k))
        elif p == "set":
            mode = I.choice(f"mode{k}", 3)
            nout = I.int(f"new_out{k}", 1, hi + 1) if mode in (0, 1) else None
            nin = I.int(f"new_in{k}", 1, hi + 1) if mode in (0, 2) else None
            ops.append(("set", I.choice(f"sess{k}", 2), nout, nin))
        elif p == "reset":
            ops.append(("set", I.choice(f"sess{k}", 2), 1, 1))
        elif p == "reload":
            ops.append(("reload", I.choice(f"sess{k}", 2)))
    # sessions must exist before they are used: load both first (these are operations too)
    ops = [("load", 0), ("load", 1)] + ops
    crash_at = I.int("crash_slot", slot_lo, slot_hi)
    done, crashed, before, after, db = _run_fake(ops, crash_at)
    j2 = db.journaler("journal.db")
    got = _state(j2)
    ok_before = _same(got, _expected(before))
    ok_after = _same(got, _expected(after))
    I.goal("outcome")
    if crashed:
        I.goal("crash")
        what = "journal open" if done == 0 else f"operation {done - 1} {ops[done - 1][0] if done >= 1 and done - 1 < len(ops) else ''}"
        I.check(ok_before or ok_after,
                f"after a crash during {what} the reopened journal is at no operation boundary "
                "(completed work lost, or the operation in flight applied partially)")
        if ok_after and not ok_before:
            I.goal("in-flight-applied")
    else:
        I.goal("normal-close")
        I.check(ok_after, "after normal close the reopened journal lost completed operations")
    cls = (done, crashed, ok_before, ok_after, tuple(o[0] for o in ops))
    if not I.symbolic and (I.role != "witness" or _REAL.setdefault(cls, 0) < 3):
        _REAL[cls] = _REAL.get(cls, 0) + 1
        I.note("real-sqlite3 crash replay")
        # the same scenario against the real sqlite3 with a real process death
        import shutil
        rdone, rcrashed, d, path = realcrash.run_in_child(_script(ops), crash_at)
        try:
            rj = realcrash.reopen(path)
            rgot = _state(rj)
            del rj
        finally:
            shutil.rmtree(d, ignore_errors=True)
        I.check(rcrashed == crashed and len(rdone) == done,
                f"FakeSQLite and sqlite3 disagree on the crash point (fake: {done} steps, real: {len(rdone)})")
        I.check(_same(rgot, got), "FakeSQLite and the real sqlite3 disagree on the state after the crash")
    return [done, crashed, ok_before, ok_after]


def cells(tier):
    quick = tier == "quick"
    lo, hi = (10, 99)
    stub = stubcheck.run()
    plans = [("persist",), ("set",), ("persist", "set"), ("set", "persist"), ("persist", "persist"), ("persist", "reset"),
             ("reload", "persist"), ("persist", "reload", "persist"), ("persist", "replace")]
    if not quick:
        plans += [("reload", "set", "persist"), ("persist", "persist", "set"), ("persist", "set", "persist"), ("set", "persist", "persist"),
                  ("persist", "set", "set"), ("reset", "persist", "set"), ("persist", "persist", "persist", "set"),
                  ("persist", "replace", "persist"), ("persist", "persist", "replace")]
    out = []
    shards = [(1, 14), (15, 20), (21, 26), (27, MAXSLOT)]
    for pl in plans:
        for (a, b) in shards:
            goals = ["outcome"]
            out.append(Cell("crash/" + "-".join(pl) + f"/slots{a}-{b}", (lambda I, pl=pl, a=a, b=b: h_crash(I, pl, lo, hi, a, b)),
                            dict(operations=["load", "load"] + list(pl),
                                 crash_slot=f"symbolic in [{a},{b}]" + (" (beyond the last slot = normal close)" if b == MAXSLOT else ""),
                                 numbers=f"symbolic in [{lo},{hi}]", session_direction="symbolic per operation", stub_validation=stub),
                            goals=goals, budget_s=2400))
    return out


ASSUMPTIONS = ["SQLite's atomic commit is trusted (anchors): a commit is atomic, with a crash slot before and after it",
               "symbolic exploration runs on FakeSQLite; every counterexample and up to 3 path witnesses per (crash step, outcome) class are re-run on the real sqlite3 with os._exit() in a child process and must give the same post-crash state; all other paths are re-run concretely on FakeSQLite"]
STUBS = ["sqlite3 -> FakeSQLite (symbolic run) / slot-counting wrapper around the real sqlite3 (replay)"]
OUTSIDE = ["operation sequences longer than the plans listed", "file-system level faults (torn pages, fsync lies)"]
