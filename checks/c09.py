"""C09 - restarting an endpoint is transparent to the session.

Real code executed: AsyncFIXConnection.__init__ -> Journaler.create_or_load (session load at
construction), send_msg (journal - write - drain order), _process_message / _finalize_message
(inbound journaling), _process_seqreset / _process_resend (counter writes), on FakeSQLite files
that outlive the connection objects; two endpoints over in-memory pipes (checks/c07.World).

Cells: (1) after every completed step from an arbitrary logged-on state the counters a *new*
connection object restores from the journal equal the live ones; (2) an endpoint is replaced by a
new object over the same journal at a solver-chosen quiescent point of a two-endpoint history,
then reconnect + Logon: nothing lost or duplicated, no outbound number reused, no ResendRequest
when nothing was lost; (3) the process is killed at a solver-chosen point inside a send (every
FakeSQLite statement / commit slot, after the transport write, after the drain) or inside the
processing of an inbound message, then restarted the same way.
"""
from asyncfix import FIXMessage, FMsg
from asyncfix.connection import ConnectionRole, ConnectionState

from checks import c04, c07
from checks.sessmod import KINDS
from vfx import fakesql
from vfx.env import Conn, frame_fields, inbound, raw_for, run
from vfx.run import Cell

CS = ConnectionState


def restored(c, name="journal.db"):
    """Counters a brand-new connection object over the same journal file would start with."""
    j = c.db.journaler(name)
    s = j.create_or_load(c._session.target_comp_id, c._session.sender_comp_id)
    return s.next_num_in, s.next_num_out


def h_step_counters(I, state, kind, digits):
    """One inbound message from an arbitrary logged-on state (C04's step harness); afterwards a new
    object must restore exactly the live counters."""
    c, nin, nout, wm = c04.prestate(I, state, digits)
    s = c04.step(I, c, kind, 0, digits)
    I.exclude("c04.reset_backward", kind == "reset" and s["par"]["new"] < s["pre_in"])
    # known finding: the journal row of an honoured SequenceReset is stored under its own MsgSeqNum,
    # which lowers the stored inbound counter below NewSeqNo - 1 (pinned by the tests' exact
    # set_seq_num call counts, see DESIGN.md)
    if kind in ("gapfill", "reset"):
        journaled = kind == "reset" or s["post_in"] != s["pre_in"]
        I.exclude("c09.seqreset_stored_counter_lags", journaled and s["seq"] != s["par"]["new"] - 1)
    if c._connection_state > CS.DISCONNECTED_BROKEN_CONN:
        rin, rout = restored(c)
        I.check(rin == c._session.next_num_in, "restored next inbound number differs from the live one after a completed step")
        I.check(rout == c._session.next_num_out, "restored next outbound number differs from the live one after a completed step")
        I.goal("compared")
    return [c._session.next_num_in, c._session.next_num_out]


class RWorld(c07.UWorld):
    """Two endpoints; either can be replaced by a new connection object over its journal file."""

    def _init(self):
        c07.World._init(self)
        self.wire = {"A": {}, "B": {}}   # number -> set of distinct new frames ever put on the wire
        self.rr_after_restart = 0

    def restart(self, side):
        def go():
            old = self.A if side == "A" else self.B
            self.note_frames()
            live = (old._session.next_num_in, old._session.next_num_out)
            new = Conn(self.db.journaler("a.db" if side == "A" else "b.db"), *(("A", "B") if side == "A" else ("B", "A")))
            new.app = old.app  # the application survives conceptually: same delivery log
            if side == "A":
                self.A = new
            else:
                self.B = new
            return live, (new._session.next_num_in, new._session.next_num_out)
        return self._u(go)

    def note_frames(self):
        for side, c in (("A", self.A), ("B", self.B)):
            w = c._socket_writer
            if w is None:
                continue
            for f in w.frames:
                d = frame_fields(f)
                if d.get("43") == b"Y" or d.get("35") == b"4":
                    continue
                body = tuple((t, v) for (t, v) in d.items() if t not in ("9", "10", "52"))
                self.wire[side].setdefault(int(d["34"]), set()).add(body)

    def count_rr(self):
        n = 0
        for c in (self.A, self.B):
            w = c._socket_writer
            if w is not None:
                n += sum(1 for f in w.frames if frame_fields(f).get("35") == b"2")
        return n

    def check_reuse(self, I):
        def go():
            self.note_frames()
            for side in ("A", "B"):
                for n, bodies in self.wire[side].items():
                    if len(bodies) > 1:
                        return f"{side} used MsgSeqNum {n} for {len(bodies)} different messages"
            return None
        bad = self._u(go)
        I.check(bad is None, f"outbound MsgSeqNum reused for a different message: {bad}")


def h_restart_quiescent(I, nphases, maxsend=2, first_restart=None):
    w = RWorld(I)
    w.logon(0)
    for k in range(nphases):
        na, nb = I.choice(f"sends_A{k}", maxsend + 1), I.choice(f"sends_B{k}", maxsend + 1)
        for _ in range(na):
            w.send("A")
        for _ in range(nb):
            w.send("B")
        w.quiesce("A" if I.choice(f"drain{k}", 2) == 0 else "B")
        side = ("A", "B", None)[first_restart if (k == 0 and first_restart is not None) else I.choice(f"restart{k}", 3)]
        if side is not None:
            graceful = I.bool(f"graceful{k}")
            if graceful:
                w.brk()
            live, new = w.restart(side)
            I.check(live == new, f"restored counters {new} differ from the ones the stopped object held {live}")
            if not graceful:
                w.brk()
            w.logon(I.choice(f"recovery_order{k}", 3))
            I.check(w._u(w.count_rr) == 0, "ResendRequest after a restart although nothing was lost")
            I.goal("restarted")
    w.send("A")
    w.send("B")
    w.quiesce()
    w.check(I)
    w.check_reuse(I)
    I.goal("done")
    return [len(w.A.app), len(w.B.app)]


class CrashWriter(c07.Pipe):
    """Transport whose process dies after the write / after the drain of the k-th frame."""

    def __init__(self, crash_after_write, crash_after_drain):
        super().__init__()
        self.caw, self.cad = crash_after_write, crash_after_drain

    def write(self, data):
        super().write(data)
        if self.caw:
            raise fakesql.Crash("after transport write")

    async def drain(self):
        if self.cad:
            raise fakesql.Crash("after transport drain")


def h_crash_in_send(I):
    """A is killed at a solver-chosen point while sending an application message."""
    w = RWorld(I)
    w.logon(0)
    pre = I.choice("sends_before", 2)
    for _ in range(pre):
        w.send("A")
    w.quiesce()
    point = I.choice("crash_point", 3)  # 0: inside the journal write (symbolic slot), 1: after write, 2: after drain
    slot = 1 + I.choice("journal_slot", 8)

    def crashing_send():
        A = w.A
        if point == 0:
            w.db.mod.slot = 0
            w.db.mod.crash_at = slot
        else:
            q = A._socket_writer.q
            A._socket_writer = CrashWriter(point == 1, point == 2)
            A._socket_writer.q = q
        try:
            run(A.send_msg(FIXMessage("D", {11: "crash"})))
            return "returned"
        except fakesql.Crash:
            return "crashed"
        finally:
            w.db.mod.crash_at = None
    outcome = w._u(crashing_send)
    if outcome == "returned":
        w.sent["A"].append("crash")
        I.goal("send-completed")
    else:
        I.goal("crashed")
    # whatever reached the transport before the crash may or may not reach the peer
    delivered = I.bool("in_flight_frame_delivered")
    if delivered:
        w.deliver(w.A, w.B)
    live, new = w.restart("A")
    w.brk()
    w.logon(I.choice("recovery_order", 3))
    w.send("A")
    w.send("B")
    w.quiesce()
    gotB = [m.get(11) for m in w.B.app]
    if outcome == "crashed":
        # the interrupted send may have gone through or not - but never twice, and it must not
        # disturb the others
        I.check(gotB.count("crash") <= 1, "message of an interrupted send delivered twice")
        gotB = [x for x in gotB if x != "crash"]
        w.B.app[:] = [m for m in w.B.app if m.get(11) != "crash"]
    w.check(I)
    w.check_reuse(I)
    I.goal("done")
    return [outcome, gotB]


def h_crash_in_receive(I):
    """B is killed at a solver-chosen journal slot while processing an inbound application message."""
    w = RWorld(I)
    w.logon(0)
    w.send("A")
    slot = 1 + I.choice("journal_slot", 8)

    def crashing_receive():
        w.db.mod.slot = 0
        w.db.mod.crash_at = slot
        try:
            c07.World.deliver(w, w.A, w.B)
            return "returned"
        except fakesql.Crash:
            return "crashed"
        finally:
            w.db.mod.crash_at = None
    outcome = w._u(crashing_receive)
    # known finding (design level): the application callback runs before the inbound journal write,
    # so a crash in between makes the next incarnation ask for - and deliver - the message again
    I.exclude("c09.crash_between_delivery_and_inbound_journal", outcome == "crashed")
    live, new = w.restart("B")
    w.brk()
    w.logon(I.choice("recovery_order", 3))
    w.send("A")
    w.quiesce()
    w.check(I)
    w.check_reuse(I)
    I.goal("done")
    return [outcome]


def h_crash_in_replay(I, nlost, nslots):
    """A is killed at a solver-chosen journal slot while it services B's ResendRequest (replay of
    nlost messages lost in a break); what A wrote before reaches B or not; restart, recover."""
    w = RWorld(I)
    w.logon(0)
    for _ in range(nlost):
        w.send("A")
    w.deliver(w.A, w.B, I.choice("delivered_before_break", nlost))
    w.brk()
    w.connect()
    w.raw_send_logon()
    w.deliver(w.A, w.B)       # B: Logon too high -> Logon reply + ResendRequest
    w.deliver(w.B, w.A, 1)    # A: Logon reply
    slot = 1 + I.choice("journal_slot", nslots)

    def crashing_replay():
        w.db.mod.slot = 0
        w.db.mod.crash_at = slot
        try:
            c07.World.deliver(w, w.B, w.A, 1)
            return "returned"
        except fakesql.Crash:
            return "crashed"
        finally:
            w.db.mod.crash_at = None
    outcome = w._u(crashing_replay)
    I.goal("crashed" if outcome == "crashed" else "replay-completed")
    if I.choice("frames_written_before_the_kill_reach_B", 2):
        w.deliver(w.A, w.B)
    live, new = w.restart("A")
    I.check(new[1] == live[1], "restored next outbound number differs from the one the killed process held")
    w.brk()
    w.logon(I.choice("recovery_order", 3))
    w.send("A")
    w.send("B")
    w.quiesce()
    w.check(I)
    w.check_reuse(I)
    I.goal("done")
    return [outcome, len(w.B.app)]


def cells(tier):
    quick = tier == "quick"
    out = []
    reg = ["c04.reset_backward", "c09.seqreset_stored_counter_lags"]
    for sname, st in c04.STATES.items():
        for kind in KINDS:
            if quick and sname != "ACTIVE" and kind not in ("app", "gapfill"):
                continue
            out.append(Cell(f"stored==live/{sname}/{kind}", (lambda I, st=st, kind=kind: h_step_counters(I, st, kind, 1 if quick else 2)),
                            dict(state=sname, inbound=kind, counters="symbolic, 1 digit" if quick else "symbolic, 2 digits"),
                            goals=["compared"], regions=reg, budget_s=2400))
    for n, ms in (((1, 2), (2, 1)) if quick else ((1, 2), (2, 2))):
        for fr in ((None,) if n == 1 else (0, 1, 2)):
            goals = ["done"] + (["restarted"] if fr != 2 else [])
            out.append(Cell(f"restart-quiescent/{n}" + ("" if fr is None else "/" + ("A", "B", "nobody")[fr] + "-first"),
                            (lambda I, n=n, ms=ms, fr=fr: h_restart_quiescent(I, n, ms, fr)),
                            dict(phases=n, per_phase=f"0..{ms} sends per side (symbolic), drain order, then restart of A / B / nobody (symbolic), graceful or killed (symbolic)"),
                            goals=goals, budget_s=3000))
    out.append(Cell("crash-in-send", h_crash_in_send,
                    dict(crash_point="inside the journal write (symbolic statement / commit slot 1..8) / after the transport write / after the drain",
                         in_flight="the frame written before the crash reaches the peer or not (symbolic)"), goals=["done", "crashed", "send-completed"], budget_s=2400))
    for nl in ((2,) if quick else (2, 3)):
        out.append(Cell(f"crash-in-replay/{nl}", (lambda I, nl=nl: h_crash_in_replay(I, nl, 4 * nl + 14)),
                        dict(lost=f"{nl} messages of A, a symbolic prefix delivered before the break", crash_point=f"symbolic journal slot 1..{4 * nl + 14} (every statement / commit boundary of the replay, and past its end) while A services the ResendRequest",
                             in_flight="frames written before the kill reach B or not (symbolic)"),
                        goals=["done", "crashed", "replay-completed"], budget_s=2400))
    out.append(Cell("crash-in-receive", h_crash_in_receive, dict(crash_point="symbolic journal slot 1..8 during _process_message of an application message"),
                    goals=["done"], regions=["c09.crash_between_delivery_and_inbound_journal"], budget_s=2400))
    return out


ASSUMPTIONS = ["a restart = a new AsyncFIXConnection object (and Journaler) over the same FakeSQLite file; the application's delivery log is kept across the restart",
               "a kill is a Crash exception raised from a FakeSQLite slot or from the transport stub; uncommitted journal work is discarded",
               "two-endpoint histories use the macro-step schedules of C07"]
STUBS = ["transport -> in-memory pipes / crashing writer", "sqlite3 -> FakeSQLite with crash slots", "clock fixed"]
OUTSIDE = ["restart points inside multi-message recovery traffic other than a kill of the endpoint servicing a ResendRequest", "more than 3 phases", "crashes of both endpoints at once"]
