"""C10 - the decoder is total, makes progress and never accepts a corrupted frame.

Real code executed: Codec.decode(silent=True) on symbolic byte strings; socket_read_task for the
live-reader clause.  Oracle: no exception; 0 <= consumed <= len; a message is returned only if the
independent reference framer accepts exactly the returned bytes and they are the consumed slice of
the input; 'consumed 0 and nothing returned' (= wait for more input) only while the buffer can
still become a valid frame.
"""
from asyncfix import FIXMessage
from asyncfix.codec import Codec
from asyncfix.connection import ConnectionRole, ConnectionState
from asyncfix.session import FIXSession

from vfx.env import PROTO, Reader, drive_reader, install_loop, mkconn, ref_frame, ref_frame_no_bodylength
from vfx.run import Cell

MARK = b"8=FIX."
HEAD = b"8=FIX.4.4\x019="


def _valid_frames():
    peer = FIXSession(1, "S", "T")
    peer.next_num_out = 7
    codec = Codec(PROTO)
    a = codec.encode(FIXMessage("D", {11: "ab", 55: "X"}), peer).encode()
    b = codec.encode(FIXMessage("0", {112: "t1"}), peer).encode()
    c = codec.encode(FIXMessage("8", {37: "o", 453: [{448: "p", 447: "D"}]}), peer).encode()
    return a, b, c


FRAMES = _valid_frames()


def can_still_complete(b):
    """Reference predicate: is `b` a proper prefix of some acceptable frame?"""
    n = len(b)
    k = min(n, len(HEAD))
    if b[:k] != HEAD[:k]:
        return False
    if n <= len(HEAD):
        return True
    j = len(HEAD)
    blen = 0
    nd = 0
    while j < n and b[j] != 1:
        if b[j] < 48 or b[j] > 57:
            return False
        blen = blen * 10 + (b[j] - 48)
        nd += 1
        j += 1
    if j >= n:
        return True  # BodyLength digits still arriving
    if nd == 0:
        return False
    return n < j + 1 + blen + 7


def _decode(I, raw):
    try:
        return Codec(PROTO).decode(raw)
    except Exception as e:
        I.check(False, f"decode(silent=True) raised {type(e).__name__}: {str(e)[:60]}")


def _oracle(I, raw, res, waiting_ok=True):
    d, used, out = res
    I.check(isinstance(used, int) or hasattr(used, "__index__"), "consumed length is not an integer")
    I.check(0 <= used, "negative consumed length")
    I.check(used <= len(raw), "consumed length exceeds the buffer")
    if d is not None:
        I.goal("message")
        I.check(out is not None and len(out) > 0 and len(out) <= used, "message without its bytes")
        I.check(raw[used - len(out):used] == out, "returned bytes are not the consumed slice")
        why = ref_frame(out)
        # known finding (pinned by tests/test_codec.py::test_decode_custom_msg_type): a frame whose
        # CheckSum is right but whose BodyLength is not is still accepted
        I.exclude("c10.bodylength_unchecked", why is not None and ref_frame_no_bodylength(out) is None)
        I.check(why is None, f"decoder returned a message for an inconsistent frame: {why}")
        I.check(used > 0, "message returned without consuming anything (decode loop never ends)")
    else:
        I.check(out is None, "raw bytes returned without a message")
        if used == 0:
            I.goal("wait")
            if waiting_ok:
                I.check(can_still_complete(raw),
                        "decoder waits for more input on bytes that can never become a frame (blocks the stream)")
        else:
            I.goal("skip")


def h_raw(I, n):
    raw = I.bytes("buf", n, n)
    res = _decode(I, raw)
    _oracle(I, raw, res)
    return [res[1], res[0] is not None]


def h_fields(I, nBS, nL, nT, nV, nC):
    """Grammar-shaped buffer: a frame skeleton with symbolic field contents (all 256 byte values)."""
    BS = I.bytes("beginstring_tail", nBS, nBS)
    L = I.bytes("bodylength", nL, nL)
    T = I.bytes("tag", nT, nT)
    V = I.bytes("value", nV, nV)
    C = I.bytes("checksum", nC, nC)
    raw = b"8=FIX." + BS + b"\x019=" + L + b"\x0135=0\x01" + T + b"=" + V + b"\x0110=" + C + b"\x01"
    res = _decode(I, raw)
    _oracle(I, raw, res)
    return [res[1], res[0] is not None]


def h_mutate(I, fi, kind, lo, hi, follow=False):
    """One byte substituted / deleted / inserted at a symbolic offset of a valid frame; with
    `follow` the corrupted frame is directly followed by a valid one in the same buffer."""
    f = FRAMES[fi]
    nxt = FRAMES[(fi + 1) % len(FRAMES)] if follow else b""
    if kind == "sub":
        off = lo + I.choice("offset", min(hi, len(f)) - lo)
        x = I.fbytes("byte", 1)
        I.assume(x[0] != f[off])
        raw = f[:off] + x + f[off + 1:]
    elif kind == "del":
        off = lo + I.choice("offset", min(hi, len(f)) - lo)
        raw = f[:off] + f[off + 1:]
    else:
        off = lo + I.choice("offset", min(hi, len(f) + 1) - lo)
        x = I.fbytes("byte", 1)
        raw = f[:off] + x + f[off:]
    raw = raw + nxt
    res = _decode(I, raw)
    d, used, out = res
    _oracle(I, raw, res)
    I.check(d is None or out == f or (follow and out == nxt), "single-byte corruption of a valid frame returned as a message")
    # repeated decoding terminates: decode what is left until nothing is consumed
    rest = raw[used:] if used > 0 else raw
    steps = 0
    while used > 0 and len(rest) > 0 and steps < 8:
        res = _decode(I, rest)
        _oracle(I, rest, res)
        I.check(res[0] is None or res[2] == f or (follow and res[2] == nxt), "corrupted frame returned as a message on re-decoding")
        used = res[1]
        rest = rest[used:] if used > 0 else rest
        steps += 1
    I.check(steps < 8, "repeated decoding does not terminate")
    return [kind, off, steps]


def h_live(I, nG, kind, joined=False):
    """Live reader: a malformed chunk, then valid traffic.  The frames that follow must get through
    (the first valid frame after the garbage may be sacrificed for resynchronisation only if the
    garbage contained a frame-start marker)."""
    install_loop()
    if kind == 0:
        g = I.bytes("garbage", 1, nG)
    elif kind == 1:
        g = b"8=FIX." + I.bytes("garbage", 0, nG)
    elif kind == 2:
        g = b"8=FIX.4.4\x019=" + I.bytes("garbage", 1, 2) + b"\x01" + I.bytes("garbage2", 0, nG - 1)
    else:
        g = FRAMES[1][: I.choice("cut", len(FRAMES[1]) - 1) + 1]
    c = mkconn(ConnectionState.ACTIVE, ConnectionRole.ACCEPTOR, 1, 1)
    got = []

    async def rec(msg, raw):
        got.append(raw)

    c._process_message = rec
    a, b, d = FRAMES
    c._socket_reader = Reader([g + a + b + d] if joined else [g, a, b, d])
    drive_reader(c)
    I.check(len(c.log.exceptions) == 0, f"reader task swallowed an exception: {c.log.exceptions[:1]}")
    I.check(d in got, "valid frames after a malformed one never get through (reader blocked)")
    I.check(b in got, "second valid frame after the malformed input was lost")
    marker_free = g.find(b"8=FIX.") == -1 and not _ends_with_marker_prefix(g)
    if marker_free:
        I.goal("marker-free")
        I.check(got == [a, b, d], "marker-free garbage cost an adjacent valid frame")
    I.goal("live")
    return [len(got)]


def _ends_with_marker_prefix(g):
    for k in range(1, 6):
        if len(g) >= k and g[len(g) - k:] == MARK[:k]:
            return True
    return False


def cells(tier):
    quick = tier == "quick"
    out = []
    reg = ["c10.bodylength_unchecked"]
    for n in ((4, 8, 12) if quick else (4, 8, 12, 14, 16)):
        out.append(Cell(f"raw/{n}", (lambda I, n=n: h_raw(I, n)), dict(buffer=f"{n} arbitrary bytes"),
                        goals=["skip"], regions=reg))
    shapes = [(3, 1, 1, 1, 1), (1, 1, 2, 1, 2), (3, 2, 1, 0, 2)] if quick else \
        [(3, 1, 1, 1, 1), (3, 2, 1, 0, 3), (1, 1, 2, 1, 2), (0, 2, 1, 2, 3), (3, 2, 1, 0, 2), (3, 1, 1, 1, 2), (3, 1, 2, 1, 1)]
    for sh in shapes:
        out.append(Cell("fields/" + "-".join(map(str, sh)), (lambda I, sh=sh: h_fields(I, *sh)),
                        dict(skeleton="8=FIX.<BS>|9=<L>|35=0|<T>=<V>|10=<C>|",
                             lengths=dict(zip(("BS", "L", "T", "V", "C"), sh)), bytes="all 256 values"),
                        goals=["skip"], regions=reg, budget_s=3000))
    step = 24
    for fi in range(len(FRAMES) if not quick else 1):
        n = len(FRAMES[fi]) + 1
        for kind in ("sub", "del", "ins"):
            for lo in range(0, n if kind == "ins" else n - 1, step if kind != "del" else 10**6):
                hi = lo + (step if kind != "del" else 10**6)
                out.append(Cell(f"mutate/{fi}/{kind}/{lo}", (lambda I, fi=fi, k=kind, lo=lo, hi=hi: h_mutate(I, fi, k, lo, hi)),
                                dict(frame=FRAMES[fi].decode("latin-1"), mutation=kind,
                                     offsets=f"every position in [{lo},{min(hi, n)})", byte="all 256 values"),
                                goals=["skip"], regions=reg, budget_s=1800))
    for fi in range(len(FRAMES) if not quick else 1):
        n = len(FRAMES[fi])
        for kind in ("sub", "del", "ins"):
            lo = 0 if not quick else max(0, n - 14)
            out.append(Cell(f"mutate-then-frame/{fi}/{kind}", (lambda I, fi=fi, k=kind, lo=lo: h_mutate(I, fi, k, lo, 10**6, True)),
                            dict(frame=FRAMES[fi].decode("latin-1"), mutation=kind, followed_by="a valid frame in the same buffer",
                                 offsets=f"every position in [{lo},{n}]", byte="all 256 values"),
                            goals=["skip"], regions=reg, budget_s=2400))
    nG = 2 if quick else 4
    for kind, kname in enumerate(("arbitrary-bytes", "marker+bytes", "header+symbolic-bodylength", "truncated-frame")):
        out.append(Cell(f"live/{kname}", (lambda I, k=kind: h_live(I, nG, k)),
                        dict(garbage=kname, garbage_bytes=f"<= {nG} symbolic bytes (all 256 values)" if kind < 3 else "every truncation point",
                             then="3 valid frames, one per read"),
                        goals=["live"] + (["marker-free"] if kind == 0 else []), regions=reg, budget_s=1800))
        if kind in (0, 1):
            out.append(Cell(f"live-one-read/{kname}", (lambda I, k=kind: h_live(I, nG, k, True)),
                            dict(garbage=kname, garbage_bytes=f"<= {nG} symbolic bytes (all 256 values)",
                                 then="3 valid frames in the same read as the garbage"),
                            goals=["live"], regions=reg, budget_s=1800))
    return out


ASSUMPTIONS = ["the live reader is driven through the real socket_read_task with scripted reads (one chunk per read)",
               "_process_message replaced by a recorder in the live cell (session logic is C04/C11's subject)"]
STUBS = ["asyncio.sleep / time.time in asyncfix.connection -> trampoline stubs", "StreamReader -> scripted Reader"]
OUTSIDE = ["buffers longer than the stated sizes", "multi-byte corruption", "corpus of valid frames limited to three (application, heartbeat, execution report with a group)"]
