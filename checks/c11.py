"""C11 - nothing passes to or from the application outside an established session.

Real code executed: _process_message, _validate_integrity, FIXSession.validate_comp_ids,
_process_logon / _process_logout, disconnect, send_msg.  One step from *every* ConnectionState x
role with a message of every kind whose header defects are solver variables (presence of 49 / 56 /
34, CompID strings, BeginString, MsgSeqNum below / at / above the expected number), followed by
one arbitrary further input and a send attempt after a disconnect.
"""
from asyncfix import FIXMessage, FMsg
from asyncfix.connection import ConnectionRole, ConnectionState
from asyncfix.errors import FIXConnectionError

from checks.sessmod import CS, TYPE_OF, check_frames_wellformed, wire_summary
from vfx.env import FIXED_TIME, frame_fields, inbound, mkconn, raw_for, run
from vfx.run import Cell

ALL_STATES = list(ConnectionState)
DISCONNECTED = [s for s in ALL_STATES if s <= CS.DISCONNECTED_BROKEN_CONN]
PRE_LOGON = [CS.NETWORK_CONN_ESTABLISHED, CS.LOGON_INITIAL_SENT, CS.WAITING_FOR_LOGON]
LOGGED_ON = [CS.ACTIVE, CS.RESENDREQ_AWAITING]
KINDS = ("app", "heartbeat", "testrequest", "resendrequest", "gapfill", "logon", "logout")


def make_msg(I, kind, k="", mode="header", nin=None):
    """mode 'header': header defects symbolic, MsgSeqNum == expected; mode 'sequence': header
    correct, MsgSeqNum symbolic."""
    if mode == "header":
        seq = nin
        has49, has56, has34 = I.bool(f"has49{k}"), I.bool(f"has56{k}"), I.bool(f"has34{k}")
        sender = I.fstr(f"sender{k}", 1, 83, 85)  # alphabet {S,T,U}: right / swapped / wrong are regions
        target = I.fstr(f"target{k}", 1, 83, 85)
        begin = ("FIX.4.4", "FIX.4.2", "FIX.4.4 ")[I.choice(f"begin{k}", 3)]
    elif mode == "defect":
        seq = nin
        d = I.choice(f"defect{k}", 4)  # a few fixed header defects (or none)
        has49, has56, has34 = d != 1, True, d != 2
        sender, target, begin = "T", ("X" if d == 3 else "S"), "FIX.4.4"
    else:
        seq = I.int(f"seq{k}", 1, 120)
        has49 = has56 = has34 = True
        sender, target, begin = "T", "S", "FIX.4.4"
    extra = {}
    if kind == "app":
        extra = {11: "c", 37: "o"}
    elif kind == "testrequest":
        extra = {112: "TR"}
    elif kind == "resendrequest":
        extra = {7: 1, 16: 0}
    elif kind == "gapfill":
        extra = {123: "Y", 36: I.int(f"new{k}", 1, 130)}
    elif kind == "logon":
        # the Logon body may lack EncryptMethod / HeartBtInt (then no reply can be built)
        extra = {}
        if I.bool(f"logon_has98{k}"):
            extra[98] = 0
        if I.bool(f"logon_has108{k}"):
            extra[108] = 30
    m = inbound(TYPE_OF[kind], seq if has34 else None, extra, sender if has49 else None,
                target if has56 else None, begin)
    hdr_ok = begin == "FIX.4.4" and has49 and has56 and sender == "T" and target == "S" and has34
    return m, raw_for(TYPE_OF[kind], seq), dict(seq=seq, has49=has49, has56=has56, has34=has34, sender=sender,
                                               target=target, begin=begin, hdr_ok=hdr_ok, kind=kind)


def snapshot(c):
    return dict(nin=c._session.next_num_in, nout=c._session.next_num_out, nmsg=len(c.app),
                nframes=len(c._socket_writer.frames) if c._socket_writer else None,
                ndisc=sum(1 for e in c.events if e[0] == "disconnect"), nev=len(c.events))


def h_step(I, states, kinds, mode, followup=False):
    state = states[I.choice("state", len(states))]
    role = (ConnectionRole.INITIATOR, ConnectionRole.ACCEPTOR)[I.choice("role", 2)]
    if mode in ("header", "defect"):
        nin, nout = 5, 7
    else:
        nin = I.int("next_in", 1, 99)
        nout = I.int("next_out", 1, 99)
    c = mkconn(state, role, nin, nout)
    if state == CS.RESENDREQ_AWAITING:
        c._max_seq_num_resend = nin + 5
    if state in LOGGED_ON:
        c._connection_was_active = True
    if state in DISCONNECTED or state == CS.UNKNOWN:
        c._socket_writer, c._socket_reader = None, None
    w = c._socket_writer
    kind = kinds[I.choice("kind", len(kinds))]
    m, raw, p = make_msg(I, kind, "", mode, nin)
    before = snapshot(c)
    try:
        run(c._process_message(m, raw))
    except Exception as e:
        I.check(False, f"_process_message raised {type(e).__name__}: {str(e)[:60]}")
    after = snapshot(c)
    frames = list(w.frames) if w is not None else []
    delivered = after["nmsg"] - before["nmsg"]
    now_disc = c._connection_state <= CS.DISCONNECTED_BROKEN_CONN
    seq = p["seq"]

    if state in DISCONNECTED:
        I.goal("already-disconnected")
        I.check(delivered == 0 and after["nev"] == before["nev"], "callback on a disconnected connection")
        I.check(c._socket_writer is None, "transport appeared on a disconnected connection")
        I.check(after["nin"] == before["nin"] and after["nout"] == before["nout"], "counters moved on a disconnected connection")
        I.check(c._connection_state == state, "state of a disconnected connection changed by input")
    elif not p["hdr_ok"] or (seq < nin and kind != "gapfill" and state != CS.RESENDREQ_AWAITING):
        I.goal("integrity-defect")
        I.check(delivered == 0, "message with an integrity defect handed to the application")
        I.check(after["nin"] == before["nin"], "message with an integrity defect advanced the inbound counter")
        I.check(now_disc, "connection not disconnected after an integrity defect")
        I.check(after["ndisc"] - before["ndisc"] == 1, "disconnect not reported exactly once")
        logouts = [frame_fields(f) for f in frames if frame_fields(f).get("35") == b"5"]
        I.check(len(frames) == len(logouts), "frames other than Logout sent for a message with an integrity defect")
        identifiable = p["has49"] and p["has56"]
        if identifiable:
            I.check(len(logouts) == 1 and len(logouts[0].get("58", b"")) > 0,
                    "no Logout stating the reason although the counterparty is identifiable")
            I.goal("logout-with-reason")
        else:
            I.goal("silent-drop")
    elif state in PRE_LOGON or state in (CS.LOGON_INITIAL_RECV, CS.LOGON_RESPONSE):
        I.goal("pre-logon")
        I.check(delivered == 0, "message handed to the application before the Logon exchange completed")
        if kind != "logon":
            I.check(after["nin"] == before["nin"], "non-Logon message before Logon advanced the inbound counter")
            I.check(now_disc, "first inbound message other than Logon did not make the connection drop")
            I.check(after["ndisc"] - before["ndisc"] == 1, "disconnect not reported exactly once")
            I.check(all(frame_fields(f).get("35") == b"5" for f in frames), "acted upon a message received before Logon")
            I.goal("non-logon-first")
        else:
            I.check(after["nin"] in (before["nin"], before["nin"] + 1), "Logon moved the inbound counter by more than one")
            if state == CS.NETWORK_CONN_ESTABLISHED and c._connection_state in (CS.ACTIVE, CS.RESENDREQ_AWAITING, CS.RECV_SEQNUM_TOO_HIGH):
                # acceptor side: the exchange is complete only once our own Logon went out
                I.check(any(frame_fields(f).get("35") == b"A" for f in frames),
                        "acceptor is logged on although it never sent its Logon reply")
                I.goal("logon-completed")
    else:
        I.goal("logged-on")  # in-sequence behaviour is C04's subject; only the gating is checked here
        if delivered:
            I.check(kind == "app" and seq == nin, "delivery of something other than the expected application message")
    check_frames_wellformed(I, frames)

    # ---- after any disconnect: no further frames or callbacks, disconnect reported once
    if now_disc and followup:
        I.goal("after-disconnect")
        mid = snapshot(c)
        kind2 = KINDS[I.choice("kind2", len(KINDS))]
        m2 = inbound(TYPE_OF[kind2], I.int("seq2", 1, 120), {7: 1, 16: 0, 36: 50, 98: 0, 108: 30},
                     "T" if I.bool("has49_2") else None, "S" if I.bool("target_ok_2") else "X")
        raw2 = raw_for(TYPE_OF[kind2], 1)
        try:
            run(c._process_message(m2, raw2))
        except Exception as e:
            I.check(False, f"_process_message after disconnect raised {type(e).__name__}")
        try:
            run(c.send_msg(FIXMessage("D", {11: "x"})))
            I.check(False, "send accepted after disconnect")
        except FIXConnectionError:
            pass
        end = snapshot(c)
        I.check(end["nmsg"] == mid["nmsg"] and end["nev"] == mid["nev"], "callback after disconnect")
        I.check(end["ndisc"] == mid["ndisc"], "disconnect reported more than once")
        I.check(end["nin"] == mid["nin"] and end["nout"] == mid["nout"], "counter moved after disconnect")
        I.check(w is None or len(w.frames) == len(frames), "frame emitted after disconnect")
        I.check(c._socket_writer is None, "transport still attached after disconnect")
    return [int(c._connection_state), delivered, after["nin"], wire_summary(frames), c.log.exceptions]


def cells(tier):
    quick = tier == "quick"
    out = []
    groups = {"disconnected": DISCONNECTED, "pre-logon": PRE_LOGON, "logon-handshake": [CS.LOGON_INITIAL_RECV, CS.LOGON_RESPONSE],
              "logged-on": LOGGED_ON,
              "other": [CS.RESENDREQ_HANDLING, CS.RECV_SEQNUM_TOO_HIGH, CS.NO_MSG_IN_INTERVAL, CS.AWAIT_PROC_TEST_REQ,
                        CS.RECEIVED_LOGOUT, CS.INITIATE_LOGOUT]}
    goals_of = {"disconnected": ["already-disconnected"], "pre-logon": ["pre-logon", "integrity-defect"],
                "logon-handshake": ["pre-logon", "integrity-defect"],
                "logged-on": ["logged-on", "integrity-defect", "silent-drop", "logout-with-reason"], "other": ["integrity-defect"]}
    hdr = "presence of 49/56/34 symbolic; CompIDs symbolic over {S,T,U}; BeginString in {FIX.4.4, FIX.4.2, 'FIX.4.4 '}; MsgSeqNum = expected; counters 5/7"
    for g, sts in groups.items():
        units = [sts] if g in ("disconnected", "other") else [[s] for s in sts]
        for unit in units:
            for kind in KINDS:
                if quick and g in ("other", "disconnected") and kind not in ("app", "logon"):
                    continue
                if quick and g == "logon-handshake" and kind not in ("app", "logon", "resendrequest"):
                    continue
                name = g if len(unit) > 1 else f"{g}/{unit[0].name}"
                for mode in ("header", "sequence"):
                    if quick and g == "disconnected" and mode == "header" and kind != "app":
                        continue
                    gl = [x for x in goals_of[g] if not (mode == "sequence" and x in ("silent-drop", "logout-with-reason"))]
                    if mode == "sequence" and (g == "other" or unit == [CS.RESENDREQ_AWAITING] or kind == "gapfill"):
                        gl = [x for x in gl if x != "integrity-defect"]
                    out.append(Cell(f"step/{name}/{kind}/{mode}", (lambda I, unit=unit, kind=kind, mode=mode: h_step(I, unit, [kind], mode)),
                                    dict(states=[s.name for s in unit], kind=kind, role="symbolic (initiator / acceptor)",
                                         header=hdr if mode == "header" else "correct",
                                         msg_seq_num="expected" if mode == "header" else "symbolic in [1,120]",
                                         counters="5/7" if mode == "header" else "symbolic in [1,99]"),
                                    goals=gl, budget_s=2400))
    for st in (CS.ACTIVE, CS.NETWORK_CONN_ESTABLISHED, CS.LOGON_INITIAL_SENT):
        for kind in ("app", "logout", "heartbeat"):
            out.append(Cell(f"after-disconnect/{st.name}/{kind}", (lambda I, st=st, kind=kind: h_step(I, [st], [kind], "defect", True)),
                            dict(states=[st.name], kind=kind, header="one of: correct / no SenderCompID / no MsgSeqNum / wrong TargetCompID",
                                 followup="after the disconnect: one further message (kind, MsgSeqNum in [1,120], SenderCompID present or not, TargetCompID right or wrong all symbolic) + one send attempt"),
                            goals=["after-disconnect"], budget_s=2400))
    return out


ASSUMPTIONS = ["messages are injected at _process_message (frames with a wrong BeginString never get past the decoder: C10)",
               "MsgSeqNum in 'integer view'"]
STUBS = ["transport -> recording Writer", "sqlite3 -> FakeSQLite", "hooks -> recorders"]
OUTSIDE = ["states AWAITING_CONNECTION / INITIATE_CONNECTION (no transport exists, so no message can arrive)", "CompIDs longer than 1 character", "histories longer than message + follow-up"]
