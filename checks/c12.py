"""C12 - the heartbeat watchdog detects dead peers and spares live ones.

Real code executed: AsyncFIXConnection.heartbeat_timer_task (one coroutine step = one tick),
send_test_req, send_msg, _process_message -> _process_testrequest / _process_heartbeat /
_finalize_message, disconnect.  The clock, the heartbeat period, the time of the last inbound
message and the outstanding TestReqID are solver variables.

Lemma cells decide one arbitrary tick / one arbitrary inbound message; scenario cells unroll the
real timer task over whole virtual-time scenarios for small periods with per-tick symbolic
arrival of traffic and of the TestRequest answer.  'About one interval' / 'about three intervals'
are read with a tolerance of two ticks (stated in the bounds).
"""
from asyncfix import FMsg
from asyncfix.connection import ConnectionRole, ConnectionState

from checks.sessmod import CS, check_frames_wellformed, wire_summary
from vfx.env import BusyLoop, VClock, frame_fields, inbound, install_loop, mkconn, raw_for, run
from vfx.run import Cell

T0 = 1_700_000_000


def tick(I, co, c):
    try:
        y = co.send(None)
    except StopIteration:
        I.check(False, "heartbeat timer task ended")
    except BusyLoop:
        I.check(False, "heartbeat timer task keeps failing without suspending (busy loop)")
    I.check(getattr(y, "what", None) is not None and y.what[0] == "sleep", "timer task suspended on something other than sleep")


def test_requests(frames):
    return [frame_fields(f) for f in frames if frame_fields(f).get("35") == b"1"]


def h_tick(I, state_name):
    """One arbitrary tick of the timer task."""
    P = I.int("period", 2, 3600)
    t = I.int("now", T0, T0 + 10**6)
    clock = install_loop(VClock(t))
    state = getattr(CS, state_name)
    c = mkconn(state, ConnectionRole.INITIATOR, 5, I.int("next_out", 1, 99), hb=P)
    silence = I.int("silence", 0, 4 * 3600 + 10)   # seconds since the last inbound message
    I.assume(silence <= 4 * P + 5)
    c._message_last_time = t - silence
    outstanding = I.bool("test_request_outstanding")
    age = 0
    if outstanding:
        age = I.int("test_request_age", 0, 4 * 3600 + 10)
        I.assume(age <= 4 * P + 5)
        c._test_req_id = t - age
    w = c._socket_writer
    co = c.heartbeat_timer_task()
    tick(I, co, c)
    co.close()
    I.check(len(c.log.exceptions) == 0, f"timer task swallowed an exception: {c.log.exceptions[:1]}")
    frames = list(w.frames)
    trs = test_requests(frames)
    disc = c._connection_state <= CS.DISCONNECTED_BROKEN_CONN
    ndisc = sum(1 for e in c.events if e[0] == "disconnect")
    I.check(ndisc == (1 if disc else 0), "disconnect not reported exactly once")
    if state == CS.ACTIVE:
        # ---- TestRequest after about one interval of silence, at most one outstanding
        if outstanding:
            I.check(len(trs) == 0, "second TestRequest while one is outstanding")
        elif silence >= P + 1:
            I.check(len(trs) == 1, "no TestRequest although nothing was received for more than one interval")
            I.check(c._test_req_id is not None or disc, "TestRequest sent but not recorded as outstanding")
            I.check(int(trs[0]["112"]) == t, "TestReqID is not the send time")
            I.goal("test-request")
        elif silence <= P - 2:
            I.check(len(trs) == 0, "TestRequest although traffic was received well within the interval")
            I.goal("quiet")
        # ---- disconnect only for an unanswered TestRequest older than two intervals
        if outstanding and age >= 2 * P + 1:
            I.check(disc, "unanswered TestRequest older than two intervals did not end the session")
            I.goal("timeout")
        if not outstanding or age <= 2 * P - 1:
            I.check(not disc, "watchdog disconnected although no TestRequest had been outstanding for two intervals")
            I.goal("spared")
        I.check(len(frames) == len(trs), "timer task wrote something other than a TestRequest")
    else:
        I.check(len(trs) == 0, "TestRequest sent outside an active session")
        I.goal("inactive")
    check_frames_wellformed(I, frames)
    return [disc, wire_summary(frames), c._test_req_id, c._message_last_time]


def h_testrequest(I):
    """Every inbound TestRequest is answered with a Heartbeat carrying the same TestReqID."""
    install_loop(VClock(T0))
    nin = I.int("next_in", 1, 99)
    st = (CS.ACTIVE, CS.RESENDREQ_AWAITING)[I.choice("state", 2)]
    c = mkconn(st, ConnectionRole.ACCEPTOR, nin, I.int("next_out", 1, 99))
    c._max_seq_num_resend = nin + 3 if st == CS.RESENDREQ_AWAITING else 0
    tid = I.str("test_req_id", 1, 3, 33, 126)
    seq = nin + I.choice("seq_offset", 2)  # expected, or one above (out of sequence)
    m = inbound("1", seq, {112: tid})
    run(c._process_message(m, raw_for("1", seq)))
    hb = [frame_fields(f) for f in c._socket_writer.frames if frame_fields(f).get("35") == b"0"]
    I.check(len(hb) == 1, f"inbound TestRequest answered with {len(hb)} Heartbeats")
    I.check(hb[0].get("112") == tid.encode("latin-1"), "Heartbeat does not echo the TestReqID")
    I.goal("echo")
    check_frames_wellformed(I, c._socket_writer.frames)
    return [wire_summary(c._socket_writer.frames)]


def h_heartbeat(I):
    """Heartbeat while a TestRequest is outstanding: same id clears it, wrong id ends the session
    with a Logout, no id is an ordinary interval heartbeat."""
    B = 1000  # small clock values keep the decimal conversions cheap; the comparison is what matters
    install_loop(VClock(B + 50))
    nin = I.int("next_in", 1, 99)
    c = mkconn(CS.ACTIVE, ConnectionRole.INITIATOR, nin, I.int("next_out", 1, 99))
    outstanding = I.bool("outstanding")
    sent_id = I.int("sent_id", B, B + 99)
    if outstanding:
        c._test_req_id = sent_id
    mode = I.choice("echo_mode", 3)  # 0: no TestReqID, 1: numeric id, 2: non-numeric text
    extra = {}
    if mode == 1:
        echoed = I.int("echoed_id", B - 5, B + 105)
        extra = {112: str(echoed)}
    elif mode == 2:
        extra = {112: I.fstr("echoed_text", 1, 58, 126)}
    w = c._socket_writer
    run(c._process_message(inbound("0", nin, extra), raw_for("0", nin)))
    disc = c._connection_state <= CS.DISCONNECTED_BROKEN_CONN
    frames = list(w.frames)
    if outstanding and mode != 0 and not (mode == 1 and echoed == sent_id):
        I.check(disc, "Heartbeat echoing a wrong TestReqID did not end the session")
        lo = [frame_fields(f) for f in frames if frame_fields(f).get("35") == b"5"]
        I.check(len(lo) == 1, "wrong TestReqID: session ended without a Logout")
        I.goal("wrong-id")
    else:
        I.check(not disc, "session ended by a Heartbeat that is not a wrong answer")
        I.check(len(frames) == 0, "frame written in reply to a Heartbeat")
        if outstanding and mode == 1:
            I.check(c._test_req_id is None, "matching Heartbeat did not clear the outstanding TestRequest")
            I.goal("answered")
        if outstanding and mode == 0:
            I.check(c._test_req_id == sent_id, "interval Heartbeat cleared the outstanding TestRequest")
    check_frames_wellformed(I, frames)
    return [disc, wire_summary(frames), c._test_req_id]


def h_scenario(I, P, peer):
    """Whole scenario in virtual time through the real timer task.  peer: 'dead' (silent from t0),
    'responsive' (answers every TestRequest within `delay` ticks, symbolic per request; may also
    send traffic at symbolic ticks), 'chatty' (sends valid traffic with gaps <= P-2, never needs a
    TestRequest)."""
    clock = install_loop(VClock(T0))
    c = mkconn(CS.ACTIVE, ConnectionRole.INITIATOR, 1, 1, hb=P)
    phase = I.int("phase", 0, P)  # silence already elapsed at the first tick
    c._message_last_time = T0 - phase
    w = c._socket_writer
    co = c.heartbeat_timer_task()
    horizon = 3 * P + 4
    nin = 1
    last_traffic = -phase
    answer_due = None
    deadline_seen = None
    for k in range(horizon):
        clock.t = T0 + k
        # peer activity at this instant (before the tick)
        if peer != "dead" and c._connection_state == CS.ACTIVE:
            if peer == "chatty":
                send_now = (k - last_traffic >= max(1, P - 2)) or I.bool(f"traffic{k}")
            else:
                send_now = False  # a responsive peer here only answers TestRequests
            if answer_due is not None and k >= answer_due[0]:
                run(c._process_message(inbound("0", nin, {112: str(answer_due[1])}), raw_for("0", nin)))
                nin += 1
                answer_due = None
                last_traffic = k
            elif send_now:
                run(c._process_message(inbound("8", nin, {11: "x"}), raw_for("8", nin)))
                nin += 1
                last_traffic = k
        nfr = len(w.frames)
        tick(I, co, c)
        if c._connection_state <= CS.DISCONNECTED_BROKEN_CONN:
            deadline_seen = k
            break
        for d in test_requests(w.frames[nfr:]):
            if peer == "responsive":
                delay = I.int(f"delay{k}", 0, P)  # answer within one interval
                answer_due = (k + 1 + delay, int(d["112"]))
    co.close()
    I.check(len(c.log.exceptions) == 0, f"swallowed exception: {c.log.exceptions[:1]}")
    trs = test_requests(w.frames)
    if peer == "dead":
        I.check(deadline_seen is not None, "silent peer not disconnected within three intervals (+ tolerance)")
        I.check(deadline_seen + phase <= 3 * P + 3, "silent peer disconnected too late")
        I.check(len(trs) == 1, f"{len(trs)} TestRequests to a silent peer (exactly one expected)")
        I.goal("dead-detected")
    else:
        I.check(deadline_seen is None, f"{peer} peer disconnected by the watchdog")
        if peer == "chatty":
            I.check(len(trs) == 0, "TestRequest to a peer whose traffic never paused for an interval")
        I.goal("alive-spared")
    check_frames_wellformed(I, w.frames)
    return [deadline_seen, len(trs)]


def cells(tier):
    quick = tier == "quick"
    out = []
    tb = dict(period="symbolic in [2,3600]", now="symbolic", silence="symbolic in [0,4P+5]",
              test_request="outstanding or not (symbolic), age symbolic in [0,4P+5]", tolerance="two ticks around the thresholds")
    out.append(Cell("tick/ACTIVE", lambda I: h_tick(I, "ACTIVE"), tb, goals=["test-request", "quiet", "timeout", "spared"]))
    for st in ("RESENDREQ_AWAITING", "NETWORK_CONN_ESTABLISHED", "LOGON_INITIAL_SENT"):
        out.append(Cell(f"tick/{st}", (lambda I, st=st: h_tick(I, st)), dict(tb, state=st), goals=["inactive"]))
    out.append(Cell("inbound-testrequest", h_testrequest, dict(test_req_id="symbolic 1..3 printable chars", msg_seq_num="expected or one above",
                                                               state="ACTIVE / RESENDREQ_AWAITING"), goals=["echo"]))
    out.append(Cell("inbound-heartbeat", h_heartbeat, dict(outstanding="symbolic", sent_id="symbolic", echoed="absent / symbolic number / symbolic 1-char text"),
                    goals=["wrong-id", "answered"]))
    for P in ((2, 3) if quick else (2, 3, 4, 5)):
        for peer in ("dead", "responsive", "chatty"):
            if peer == "chatty" and P > 3:
                continue  # 2^(3P+4) traffic patterns: beyond the budget
            out.append(Cell(f"scenario/P{P}/{peer}", (lambda I, P=P, peer=peer: h_scenario(I, P, peer)),
                            dict(period=P, horizon_ticks=3 * P + 4, phase="symbolic in [0,P]",
                                 peer=peer, per_tick="traffic arrival symbolic; answer delay symbolic in [0,P]"),
                            goals=["dead-detected" if peer == "dead" else "alive-spared"], budget_s=2400))
    return out


ASSUMPTIONS = ["clock in integer seconds (floating-point rounding of real timestamps is outside the claim)",
               "asyncio.sleep(1) advances virtual time by exactly one second per tick in the scenarios",
               "'about one interval' = TestRequest required from P+1 s of silence, forbidden up to P-2 s; 'about three intervals' = dead peer gone by 3P+3 s; disconnect forbidden while the TestRequest is younger than 2P-1 s",
               "general-period composition of the tick lemmas is an argument on paper; scenarios are unrolled for P in {2,3} (quick) / {2..5} (thorough)"]
STUBS = ["time.time / asyncio.sleep in asyncfix.connection -> virtual clock + trampoline", "transport -> recording Writer", "sqlite3 -> FakeSQLite"]
OUTSIDE = ["periods above 3600 s", "scenario periods above 5", "sub-second timing"]
