"""C13 - the journal is a faithful per-session, per-direction message store.

Real code executed: every public Journaler method, on FakeSQLite (which interprets the SQL text
the running code passes, so a changed comparison operator / dropped filter / wrong column is
seen).  Formulation: a pre-state built by the real code from symbolic rows (sessions incl. a
mirror-image CompID pair, both directions, symbolic sequence numbers), then operations with
symbolic arguments, compared after every step with the reference model checks/jmodel.py.
"""
from asyncfix.errors import DuplicateSeqNoError

from checks.jmodel import DIRS, IN, OUT, SESS, Ref, compare, msg_bytes
from vfx import stubcheck
from vfx.env import FakeDB
from vfx.run import Cell


def setup(I, nsess):
    db = FakeDB()
    j = db.journaler()
    ref = Ref()
    keys, sessions = {}, {}
    for si in range(nsess):
        t, s = SESS[si]
        sess = j.create_or_load(t, s)
        I.check(sess.next_num_in == 1 and sess.next_num_out == 1, "fresh session does not start at 1/1")
        ref.load(si)
        keys[si] = sess.key
        sessions[si] = sess
    I.check(len(set(keys.values())) == nsess, "two sessions share a key")
    return j, ref, keys, sessions


def seqnum(I, name, lo, hi):
    return I.int(name, lo, hi)


def do_persist(I, j, ref, sessions, k, si, d, lo, hi):
    seq = seqnum(I, f"seq{k}", lo, hi)
    m = msg_bytes(seq, "r%d" % k)
    dup = ref.has(si, d, seq)
    try:
        j.persist_msg(m, sessions[si], d)
        ok = True
    except DuplicateSeqNoError:
        ok = False
    except Exception as e:
        I.check(False, f"persist_msg raised {type(e).__name__}")
    if dup:
        I.check(not ok, "storing a number twice did not fail with the duplicate error")
        I.goal("duplicate")
    else:
        I.check(ok, "duplicate error for a number that is not stored (other session / direction?)")
        ref.persist(si, d, seq, m)
        # the owner of the session object (the connection) keeps it in step with what it stored
        if d is OUT:
            sessions[si].next_num_out = seq + 1
        else:
            sessions[si].next_num_in = seq + 1
        I.goal("stored")
    return seq


def h_store_query(I, layout, lo, hi, qlo, qhi):
    """Pre-state rows per `layout` [(sess, dir)...] with symbolic numbers, then a range query with
    symbolic bounds on a symbolic (session, direction)."""
    nsess = 1 + max(si for si, d in layout)
    j, ref, keys, sessions = setup(I, nsess)
    for k, (si, d) in enumerate(layout):
        do_persist(I, j, ref, sessions, k, si, d, lo, hi)
    compare(I, j, ref, keys, "after stores")
    qs = I.choice("query_sess", nsess)
    qd = DIRS[I.choice("query_dir", 2)]
    a = I.int("from", qlo, qhi)
    b = I.int("to", qlo, qhi)
    got = j.recover_messages(sessions[qs], qd, a, b)
    exp = ref.query(qs, qd, a, b)
    I.check(got == exp, "range query result differs from the model (bounds / order / isolation)")
    if len(exp) > 0:
        I.goal("nonempty")
    if a > b:
        I.goal("inverted")
    one = j.recover_msg(sessions[qs], qd, a)
    e1 = ref.query(qs, qd, a, a)
    I.check(one == (e1[0] if e1 else None), "recover_msg differs from the model")
    return [len(got)]


def h_set(I, layout, lo, hi, modes=(0, 1, 2)):
    """Rows, then set_seq_num with symbolic new values (each optional), then the full comparison."""
    nsess = 1 + max(si for si, d in layout)
    j, ref, keys, sessions = setup(I, nsess)
    for k, (si, d) in enumerate(layout):
        do_persist(I, j, ref, sessions, k, si, d, lo, hi)
    ss = I.choice("set_sess", nsess)
    mode = I.choice("set_mode", len(modes))
    mode = modes[mode]  # 0 both / 1 out only / 2 in only
    nout = I.int("new_out", 1, hi + 1) if mode in (0, 1) else None
    nin = I.int("new_in", 1, hi + 1) if mode in (0, 2) else None
    j.set_seq_num(sessions[ss], next_num_out=nout, next_num_in=nin)
    # the live session object follows
    ref.set_seq(ss, nout, nin)
    I.check(sessions[ss].next_num_out == ref.next_out[ss] and sessions[ss].next_num_in == ref.next_in[ss],
            "session object not updated by set_seq_num")
    compare(I, j, ref, keys, "after set_seq_num")
    I.goal("set")
    # storing again at the new numbers must work (nothing left at or above them)
    k = len(layout)
    if nout is not None:
        m = msg_bytes(nout, "again")
        try:
            j.persist_msg(m, sessions[ss], OUT)
        except DuplicateSeqNoError:
            I.check(False, "a message at the new outbound number still exists after set_seq_num")
        ref.persist(ss, OUT, nout, m)
        sessions[ss].next_num_out = nout + 1
        compare(I, j, ref, keys, "after store at the new number")
    return [len(ref.rows)]


def h_ops(I, plan, lo, hi):
    """A sequence of operations with symbolic arguments, compared step by step."""
    j, ref, keys, sessions = setup(I, 2)
    for k, op in enumerate(plan):
        si = I.choice(f"sess{k}", len(sessions))
        d = DIRS[I.choice(f"dir{k}", 2)]
        if op == "newsession":
            # a further session is created in the middle of the history
            ni = len(sessions)
            t, s = SESS[ni]
            sess = j.create_or_load(t, s)
            I.check((sess.next_num_in, sess.next_num_out) == ref.load(ni), "fresh session does not start at 1/1")
            I.check(sess.key not in keys.values(), "new session shares a key with an existing one")
            sessions[ni] = sess
            keys[ni] = sess.key
            I.goal("new-session")
        elif op == "persist":
            do_persist(I, j, ref, sessions, k, si, d, lo, hi)
        elif op == "replace":
            # a retransmission journaled under a number (used already or not): takes the row's
            # place, other rows and all counters stay
            seq = I.int(f"seq{k}", lo, hi)
            m = msg_bytes(seq, "R%d" % k)
            j.persist_msg(m, sessions[si], d, replace=True)
            if ref.has(si, d, seq):
                I.goal("replaced")
            ref.replace(si, d, seq, m)
        elif op == "set":
            nout = I.int(f"new_out{k}", 1, hi + 1)
            nin = I.int(f"new_in{k}", 1, hi + 1)
            j.set_seq_num(sessions[si], next_num_out=nout, next_num_in=nin)
            ref.set_seq(si, nout, nin)
            I.goal("set")
        elif op == "load":
            t, s = SESS[si]
            sess = j.create_or_load(t, s)
            I.check((sess.next_num_in, sess.next_num_out) == ref.load(si), "reloaded session has other counters")
            sessions[si] = sess
        elif op == "all":
            got = j.get_all_msgs([sessions[si]], d)
            inv = {v: kk for kk, v in keys.items()}
            I.check([(q, m, dd, inv.get(kx)) for (q, m, dd, kx) in got] == ref.all_rows([si], d),
                    "filtered get_all_msgs differs from the model")
            got = j.get_all_msgs([keys[si]], None)
            I.check([(q, m, dd, inv.get(kx)) for (q, m, dd, kx) in got] == ref.all_rows([si], None),
                    "get_all_msgs by key differs from the model")
        compare(I, j, ref, keys, f"after step {k} ({op})")
    return [len(ref.rows)]


def h_digits(I):
    """One stored message with a wide-range number: the number parsed out of the bytes is the key."""
    j, ref, keys, sessions = setup(I, 1)
    seq = do_persist(I, j, ref, sessions, 0, 0, OUT, 1, 10**5)
    compare(I, j, ref, keys, "after store")
    I.check(j.recover_msg(sessions[0], OUT, seq) == msg_bytes(seq, "r0"), "message not found under its number")
    return [seq]


def cells(tier):
    quick = tier == "quick"
    lo, hi = (10, 99) if quick else (1, 99)
    sb = f"sequence numbers symbolic in [{lo},{hi}]"
    out = []
    stub = stubcheck.run()
    layouts = {
        "iso": [(0, OUT), (0, IN), (1, OUT), (0, OUT)] if not quick else [(0, OUT), (0, IN), (0, OUT)],
        "mirror": [(0, OUT), (1, OUT), (1, IN)],
        "3sess": [(0, OUT), (2, OUT), (1, OUT)],
    }
    for name, lay in layouts.items():
        out.append(Cell(f"store+query/{name}", (lambda I, l=lay: h_store_query(I, l, lo, hi, lo - 2, hi + 2)),
                        dict(rows=[(si, d.name) for si, d in lay], numbers=sb, query="symbolic session, direction, bounds in [lo-2,hi+2]",
                             stub_validation=stub),
                        goals=["stored", "nonempty", "inverted"] + (["duplicate"] if name == "iso" else [])))
        for mi, mname in enumerate(("both", "out-only", "in-only")):
            out.append(Cell(f"store+set/{name}/{mname}", (lambda I, l=lay, mi=mi: h_set(I, l, lo, hi, (mi,))),
                            dict(rows=[(si, d.name) for si, d in lay], numbers=sb, set=f"symbolic session; new values symbolic ({mname})"),
                            goals=["stored", "set"]))
    plans = [("persist", "persist", "set"), ("persist", "set", "persist"), ("persist", "load", "all"),
             ("persist", "newsession", "persist"), ("newsession", "persist", "persist"), ("persist", "replace", "all")]
    if not quick:
        plans += [("persist", "newsession", "persist", "persist"), ("persist", "persist", "persist", "set"), ("set", "persist", "set"), ("persist", "set", "load", "all"), ("persist", "persist", "replace", "persist")]
    for pl in plans:
        out.append(Cell("ops/" + "-".join(pl), (lambda I, pl=pl: h_ops(I, pl, lo, hi)),
                        dict(plan=list(pl), session_and_direction="symbolic per step", numbers=sb),
                        goals=["stored"] + (["new-session", "duplicate"] if "newsession" in pl else []) + (["replaced"] if "replace" in pl else []), budget_s=2400))
    out.append(Cell("digits", h_digits, dict(number="symbolic in [1,10^5]"), goals=["stored"]))
    return out


ASSUMPTIONS = ["sqlite3 is replaced by FakeSQLite (vfx/fakesql.py), which interprets the journaler's SQL; it is diffed against the real sqlite3 on a fixed script on every run (coverage.cells[*].bounds.stub_validation)",
               "sequence numbers are ints (SQLite type affinity for text numbers is outside the claim)"]
STUBS = ["sqlite3 -> FakeSQLite"]
OUTSIDE = ["SQLite's own storage engine", "more than 3 sessions / 4 rows", "non-integer sequence numbers", "message bytes other than the fixed skeleton with a symbolic 34= field"]
