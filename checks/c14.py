"""C14 - concurrent senders never corrupt the outbound sequence.

Real code executed: AsyncFIXConnection.send_msg, send_test_req, _process_message ->
_process_resend / _check_seqnum_gaps / _process_logon in a 'reader' task, heartbeat_timer_task,
Codec.encode, Journaler on FakeSQLite.

A symbolic scheduler drives the coroutines: the suspension points are exactly the ones the
library has - the transport's drain() (back-pressure; waiters are woken FIFO) and the awaited
application hooks should_replay / on_state_change / on_message / on_logon (stubs that yield).
At every scheduling point the next runnable task is a solver-chosen index; an exhausted tree is
every schedule up to the bound.  The starting counter and the ResendRequest range are symbolic.
"""
from asyncfix import FIXMessage, FMsg
from asyncfix.connection import ConnectionRole, ConnectionState
from asyncfix.errors import DuplicateSeqNoError
from asyncfix.message import MessageDirection

from vfx.env import Conn, FakeDB, VClock, Writer, Yield, frame_fields, inbound, install_loop, raw_for, run
from vfx.run import Cell

CS = ConnectionState
OUT = MessageDirection.OUTBOUND


class YWriter(Writer):
    async def drain(self):
        await Yield("drain")


class YConn(Conn):
    """Connection whose awaited application hooks suspend (any of them may be slow in real life)."""

    async def should_replay(self, m):
        await Yield("hook")
        return True

    async def on_state_change(self, s):
        await Yield("hook")

    async def on_message(self, m):
        await Yield("hook")
        self.app.append(m)

    async def on_logon(self, ok):
        await Yield("hook")


def schedule(I, tasks, max_steps):
    """Run the coroutines under a solver-chosen schedule.  Returns per-task exceptions."""
    st = [dict(co=co, wait=None, done=False, err=None) for co in tasks]
    drainq = []
    step = 0
    while True:
        runnable = [t for t in st if not t["done"] and (t["wait"] != "drain" or (drainq and drainq[0] is t))]
        if not runnable:
            break
        I.check(step < max_steps, "harness: schedule longer than the suspension-point bound")
        t = runnable[I.choice(f"pick{step}", len(runnable))] if len(runnable) > 1 else runnable[0]
        if t["wait"] == "drain":
            drainq.pop(0)
        try:
            y = t["co"].send(None)
            kind = y.what if isinstance(y.what, str) else y.what[0]
            t["wait"] = kind
            if kind == "drain":
                drainq.append(t)
        except StopIteration:
            t["done"] = True
        except Exception as e:
            t["done"] = True
            t["err"] = e
        step += 1
    return [t["err"] for t in st], step


def wire(frames):
    out = []
    for f in frames:
        d = frame_fields(f)
        retrans = d.get("43") == b"Y" or d.get("35") == b"4"
        out.append((int(d["34"]), retrans, f))
    return out


def oracle(I, c, w, errs, first_new, pre_frames):
    for e in errs:
        I.check(e is None, "a task failed: " + type(e).__name__)
    I.check(len(c.log.exceptions) == 0, f"exception swallowed inside the connection: {c.log.exceptions[:1]}")
    sent = wire(w.frames[pre_frames:])
    new = [(n, f) for (n, r, f) in sent if not r]
    nums = [n for (n, f) in new]
    for a, b in zip(nums, nums[1:]):
        I.check(a < b, "new messages left with MsgSeqNums that are not strictly increasing in wire order")
    if nums:
        I.check(nums[0] == first_new, "first new message does not carry the next outbound number")
        I.check(nums == list(range(first_new, first_new + len(nums))), "new messages are not numbered consecutively")
    sent_so_far = first_new - 1
    for (n, r, f) in sent:
        if r:
            # only numbers already used by an earlier message are ever reused (by their own retransmission)
            I.check(n <= sent_so_far, "retransmission / gap fill uses a number that no earlier message carried")
            d = frame_fields(f)
            if d.get("35") == b"4":
                I.check(int(d["36"]) <= sent_so_far + 1, "gap fill tells the peer to skip numbers that were not sent yet")
        else:
            sent_so_far = n
    highest = (nums[-1] if nums else first_new - 1)
    I.check(c._session.next_num_out == highest + 1, "live next outbound number is not the highest number sent + 1")
    stored = c._journaler.create_or_load(c._session.target_comp_id, c._session.sender_comp_id).next_num_out
    I.check(stored == highest + 1, "stored next outbound number is not the highest number sent + 1")
    for (n, f) in new:
        # the journal holds the frame last sent under the number (the message itself or its retransmission)
        last = f
        for (n2, r2, f2) in sent:
            if n2 == n:
                last = f2
        I.check(c._journaler.recover_messages(c._session, OUT, n, n) == [last], "a message is not journaled under its number")


def mk(I, first):
    install_loop(VClock(1000))
    db = FakeDB()
    c = YConn(db.journaler())
    c._journaler.set_seq_num(c._session, next_num_out=first, next_num_in=5)
    c._connection_state = CS.ACTIVE
    c._connection_role = ConnectionRole.INITIATOR
    c._connection_was_active = True
    c._socket_writer = Writer()
    c._socket_reader = object()
    return c


def h_senders(I, n, bound, hi=99):
    """n application tasks call send_msg concurrently."""
    first = I.int("next_out", 1, hi)
    c = mk(I, first)
    w = YWriter()
    c._socket_writer = w
    tasks = [c.send_msg(FIXMessage("D", {11: "t%d" % k})) for k in range(n)]
    errs, steps = schedule(I, tasks, bound)
    oracle(I, c, w, errs, first, 0)
    I.goal("scheduled")
    return [steps, [x[0] for x in wire(w.frames)]]


def h_resend_race(I, nsent, nsenders, with_heartbeat, bound):
    """The reader task services a ResendRequest (it awaits should_replay and drain for every
    frame) while application tasks send new messages and the heartbeat task fires."""
    first = I.int("next_out", 1, 9)
    c = mk(I, first)
    for k in range(nsent):
        run(c.send_msg(FIXMessage("D", {11: "old%d" % k})))
    nout = first + nsent
    w = YWriter()
    c._socket_writer = w
    begin = I.int("begin", 1, 12)
    I.assume(first <= begin < nout)
    reader = c._process_message(inbound("2", 5, {7: begin, 16: 0}), raw_for("2", 5))
    tasks = [reader] + [c.send_msg(FIXMessage("D", {11: "new%d" % k})) for k in range(nsenders)]
    if with_heartbeat:
        c._message_last_time = 1000 - 40  # silent for longer than one interval (30 s), shorter than two
        hb = c.heartbeat_timer_task()

        async def one_tick():
            # drive the real timer task for one iteration
            y = None
            try:
                y = hb.send(None)
                while not (isinstance(getattr(y, "what", None), tuple) and y.what[0] == "sleep"):
                    await Yield(y.what)
                    y = hb.send(None)
            finally:
                hb.close()
        tasks.append(one_tick())
    errs, steps = schedule(I, tasks, bound)
    oracle(I, c, w, errs, nout, 0)
    I.check(c._connection_state == CS.ACTIVE, "not ACTIVE after the replay finished")
    I.goal("scheduled")
    return [steps, [(x[0], x[1]) for x in wire(w.frames)]]


def h_initial_logon(I, nlogout, bound):
    """The initiator's first Logon (send_msg awaits on_state_change for LOGON_INITIAL_SENT) races
    with further send_msg calls that are legal at that point (Logout)."""
    first = I.int("next_out", 1, 99)
    c = mk(I, first)
    c._connection_state = CS.NETWORK_CONN_ESTABLISHED
    c._connection_role = ConnectionRole.UNKNOWN
    c._connection_was_active = False
    w = YWriter()
    c._socket_writer = w
    tasks = [c.send_msg(FIXMessage(FMsg.LOGON, {98: 0, 108: 30}))] + [c.send_msg(FIXMessage(FMsg.LOGOUT)) for _ in range(nlogout)]
    errs, steps = schedule(I, tasks, bound)
    # a send may be refused (the Logon after a Logout already opened the dialogue): a refused send
    # consumes no number and writes nothing - the numbering oracle covers that
    from asyncfix.errors import FIXConnectionError
    refused = sum(1 for e in errs if isinstance(e, FIXConnectionError))
    I.check(len(w.frames) == len(tasks) - refused, "a refused send wrote a frame, or an accepted one did not")
    oracle(I, c, w, [None if isinstance(e, FIXConnectionError) else e for e in errs], first, 0)
    I.goal("scheduled")
    return [steps, [x[0] for x in wire(w.frames)]]


def h_gap_race(I, bound):
    """The reader task detects a gap (sends a ResendRequest, awaits drain and on_state_change)
    while an application task sends."""
    first = I.int("next_out", 1, 99)
    c = mk(I, first)
    w = YWriter()
    c._socket_writer = w
    reader = c._process_message(inbound("8", 9, {11: "x"}), raw_for("8", 9))  # expected 5: gap
    tasks = [reader, c.send_msg(FIXMessage("D", {11: "new"})), c.send_msg(FIXMessage("D", {11: "new2"}))]
    errs, steps = schedule(I, tasks, bound)
    oracle(I, c, w, errs, first, 0)
    I.goal("scheduled")
    return [steps, [(x[0], x[1]) for x in wire(w.frames)]]


def cells(tier):
    quick = tier == "quick"
    out = []
    out.append(Cell("senders/2", lambda I: h_senders(I, 2, 8), dict(tasks="2 x send_msg", suspension_points="drain (FIFO)", next_out="symbolic in [1,99]"),
                    goals=["scheduled"]))
    out.append(Cell("senders/3", lambda I: h_senders(I, 3, 10), dict(tasks="3 x send_msg", suspension_points="drain (FIFO)", next_out="symbolic in [1,99]"),
                    goals=["scheduled"]))
    for nl in (1, 2):
        out.append(Cell(f"initial-logon+{nl}-logout", (lambda I, nl=nl: h_initial_logon(I, nl, 12)),
                        dict(tasks=f"send_msg(Logon) from NETWORK_CONN_ESTABLISHED + {nl} x send_msg(Logout)", suspension_points="on_state_change, drain", next_out="symbolic in [1,99]"),
                        goals=["scheduled"]))
    out.append(Cell("gap-detection+2-senders", lambda I: h_gap_race(I, 14), dict(tasks="reader (gap -> ResendRequest) + 2 x send_msg",
                    suspension_points="drain, on_state_change"), goals=["scheduled"]))
    out.append(Cell("resend+1-sender", lambda I: h_resend_race(I, 2, 1, False, 16),
                    dict(tasks="reader servicing ResendRequest over 2 journaled messages + 1 x send_msg", begin_seq_no="symbolic", next_out="symbolic in [1,9]",
                         suspension_points="should_replay, drain, on_state_change"), goals=["scheduled"], budget_s=2400))
    out.append(Cell("resend+heartbeat", lambda I: h_resend_race(I, 1, 0, True, 16),
                    dict(tasks="reader servicing ResendRequest + heartbeat timer tick (TestRequest)", suspension_points="should_replay, drain, on_state_change"),
                    goals=["scheduled"], budget_s=2400))
    if not quick:
        # (reader + 2 senders and reader + sender + heartbeat did not exhaust within 40 min per cell:
        #  outside the claim, see OUTSIDE)
        out.append(Cell("senders/2/wide-counter", lambda I: h_senders(I, 2, 8, 99999), dict(tasks="2 x send_msg", next_out="symbolic in [1,99999]"), goals=["scheduled"]))
    return out


ASSUMPTIONS = ["suspension points are the library's own awaits: drain() and the application hooks should_replay / on_state_change / on_message / on_logon; tasks waiting in drain() are woken in FIFO order (the property's stated assumption)",
               "asyncio's cooperative scheduling: a task runs uninterrupted between two awaits"]
STUBS = ["event loop -> symbolic scheduler (vfx: checks/c14.schedule)", "transport drain -> suspension point", "hooks -> suspending stubs", "sqlite3 -> FakeSQLite", "clock -> virtual"]
OUTSIDE = ["reader servicing a ResendRequest together with two further tasks (2 senders, or sender + heartbeat): the schedule tree did not exhaust in 40 min per cell", "more than 3 tasks / more suspension points than the stated bound", "non-FIFO wake-up of drain waiters", "task cancellation"]
