"""C15 - schema validation accepts exactly the messages the FIX dictionary allows.

Real code executed: FIXSchema.validate, _validate_header, SchemaGroup.validate_group,
SchemaField.validate_value, and (declaration-order cells) FIXSchema._parse / _parse_msg_set with
deferred component resolution.  Dictionaries: tests/FIX44.xml and tests/TT-FIX44.xml, loaded on
every run.  The oracle is derived from an independent reading of the XML (checks/dictmodel.py).

Per message type: a valid instance generated from the dictionary must validate; then one fault at
a solver-chosen position (drop a member, foreign / unknown tag, value outside the enumeration or
type, plain-vs-group confusion, group member order / first member / foreign member / missing
required member at every nesting depth) must be rejected - or accepted when the dropped member is
optional - and every rejection must be the library's message error.
"""
import copy
import warnings
import xml.etree.ElementTree as ET

from asyncfix import FIXMessage
from asyncfix.errors import FIXMessageError
from asyncfix.message import FIXContainer
from asyncfix.protocol.schema import FIXSchema

from checks.dictmodel import Dict
from vfx.run import Cell, REPO

warnings.simplefilter("ignore")
PATHS = {"FIX44": REPO + "/tests/FIX44.xml", "TT": REPO + "/tests/TT-FIX44.xml"}
_CACHE = {}


def load(name, I=None):
    """(schema, dictionary model).  With `I`: a private deep copy of the parsed schema for this
    path, so that nothing a validation might store in the schema object leaks into other paths."""
    if name not in _CACHE:
        _CACHE[name] = (FIXSchema(PATHS[name]), Dict(PATHS[name]))
    S, D = _CACHE[name]
    if I is not None:
        S = I.untraced(lambda: copy.deepcopy(S))
    return S, D


def build(msgtype, entries):
    m = FIXMessage(msgtype)
    for tag, val, _ in entries:
        if isinstance(val, list):
            m.set_group(tag, [to_container(i) for i in val])
        else:
            m.set(tag, val)
    return m


def to_container(item):
    c = FIXContainer()
    for t, v in item.items():
        if isinstance(v, list):
            c.set_group(t, [to_container(i) for i in v])
        else:
            c.set(t, v)
    return c


def verdict(I, schema, msg):
    try:
        r = schema.validate(msg)
        I.check(r is True, "validate returned something else than True")
        return True
    except FIXMessageError:
        return False
    except Exception as e:
        I.check(False, f"validation failed with {type(e).__name__} instead of the library's message error: {str(e)[:80]}")


def pick_type(I, D, types):
    return types[I.choice("msg_type", len(types))]


def h_message(I, dname, types):
    """Valid instance accepted; one message-level fault at a solver-chosen position."""
    S, D = load(dname, I)
    mt = pick_type(I, D, types)
    inst = D.instance(mt)
    I.check(verdict(I, S, build(mt, inst)), f"valid {D.messages[mt][0]} instance built from the dictionary was rejected")
    I.goal("valid-accepted")
    fault = I.choice("fault", 5)
    if fault == 0:  # drop one member
        if not inst:
            return [mt, "empty"]
        k = I.choice("position", len(inst))
        m = inst[k][2]
        acc = verdict(I, S, build(mt, inst[:k] + inst[k + 1:]))
        if m[4]:
            # known finding (fixed in the repo if listed as fixed): a missing required *group*
            I.exclude("c15.required_group_missing", m[0] == "group")
            I.check(not acc, f"message without required {m[0]} {m[1]} was accepted")
            I.goal("missing-required")
        elif not m[3]:
            I.check(acc, f"message without optional {m[0]} {m[1]} was rejected")
            I.goal("missing-optional")
    elif fault == 1:  # a tag unknown to the dictionary / known but not allowed in this message
        allowed = D.allowed_tags(mt)
        hdr = {m[2] for m in D.header}
        which = I.choice("foreign_kind", 2)
        if which == 0:
            tag = "9999" if "9999" not in D.by_tag else "29999"
        else:
            tag = None
            for t in sorted(D.by_tag, key=int):
                if t not in allowed and t not in hdr:
                    tag = t
                    break
            if tag is None:
                return [mt, "all tags allowed"]
        val = D.value_for(D.by_tag[tag]) if tag in D.by_tag else "x"
        acc = verdict(I, S, build(mt, inst + [(tag, val, None)]))
        I.check(not acc, f"tag {tag} ({'unknown to the dictionary' if which == 0 else 'not allowed in this message'}) was accepted")
        I.goal("foreign-tag")
    elif fault == 2:  # value outside the enumeration / type
        cand = [k for k, (t, v, m) in enumerate(inst) if m[0] == "field" and (D.fields[m[1]][2] or D.fields[m[1]][1].upper() in ("INT", "BOOLEAN"))][:3]
        if not cand:
            return [mt, "no typed field"]
        k = cand[I.choice("position", len(cand))]
        tag, _, m = inst[k]
        enum, typ = D.fields[m[1]][2], D.fields[m[1]][1].upper()
        if enum:
            nv = I.fstr("value", 1, 48, 90)
            want = False
            for e in enum:
                if nv == e:
                    want = True
        else:
            nv = I.fstr("value", 1, 43, 90)
            want = ("0" <= nv <= "9") if typ == "INT" else (nv == "Y" or nv == "N")
        acc = verdict(I, S, build(mt, inst[:k] + [(tag, nv, m)] + inst[k + 1:]))
        I.check(acc == want, f"value of {m[1]} ({typ}{', enumerated' if enum else ''}): acceptance differs from the dictionary")
        I.goal("value-checked")
    elif fault == 3:  # plain field given as a group / group given as a plain field
        if not inst:
            return [mt, "empty"]
        k = I.choice("position", len(inst))
        tag, val, m = inst[k]
        bad = (tag, "1", m) if isinstance(val, list) else (tag, [{tag: "1"}], m)
        acc = verdict(I, S, build(mt, inst[:k] + [bad] + inst[k + 1:]))
        I.check(not acc, f"{m[1]} given as {'plain field' if isinstance(val, list) else 'group'} was accepted")
        I.goal("shape")
    else:  # with the standard header present
        hdr = [("8", "FIX.4.4"), ("9", "100"), ("35", mt), ("49", "S"), ("56", "T"), ("34", "2"), ("52", "20240102-03:04:05")]
        drop = I.choice("drop_header", len(hdr) + 1)
        m = FIXMessage(mt)
        for i, (t, v) in enumerate(hdr):
            if i != drop:
                m.set(t, v)
        for tag, val, _ in inst:
            if isinstance(val, list):
                m.set_group(tag, [to_container(i) for i in val])
            else:
                m.set(tag, val)
        m.set("10", "000")
        acc = verdict(I, S, m)
        if drop == len(hdr) or drop == 0:
            I.check(acc, "valid message with its standard header was rejected")
        else:
            I.check(not acc, f"message without required header field {hdr[drop][0]} was accepted")
        I.goal("header")
    return [mt, fault]


def groups_of(D, mt):
    """[(top-level group member, path of nested group tags)] for every group at every depth."""
    out = []

    def walk(members, top, path):
        for m in members:
            if m[0] == "group":
                t = top or m
                out.append((t, path + [m[2]], m))
                walk(m[5], t, path + [m[2]])
    walk(D.messages[mt][1], None, [])
    return out


def h_group(I, dname, targets):
    """One fault inside a repeating group item at a solver-chosen position and nesting depth."""
    S, D = load(dname, I)
    mt, top, path, grp = targets[I.choice("target", len(targets))]
    # message with every required member + the target's top-level group, items fully populated
    inst = [e for e in D.instance(mt, optional=0) if e[2][3] or e[0] == top[2]]
    if all(e[0] != top[2] for e in inst):
        inst.append((top[2], [D.group_item(top[5], full=True)], top))
    inst = [(t, ([D.group_item(top[5], full=True)] if t == top[2] else v), m) for (t, v, m) in inst]
    I.check(verdict(I, S, build(mt, inst)), f"valid instance with a fully populated {top[1]} group was rejected")
    I.goal("valid-accepted")
    inst = copy.deepcopy([(t, v, None) for (t, v, m) in inst])
    # locate the item of the target group
    item = None
    for t, v, _ in inst:
        if t == path[0]:
            item = v[0]
    for gt in path[1:]:
        item = item[gt][0]
    members = grp[5]
    keys = list(item.keys())
    fault = I.choice("fault", 5)
    want = None
    if fault == 0 and len(keys) >= 2:  # swap two adjacent members
        k = I.choice("position", len(keys) - 1)
        keys[k], keys[k + 1] = keys[k + 1], keys[k]
        want, what = False, "members out of dictionary order"
    elif fault == 1:  # remove one member
        k = I.choice("position", len(keys))
        m = [x for x in members if x[2] == keys[k]][0]
        del keys[k]
        if k == 0:
            want, what = False, "first member missing"
        elif m[3]:
            I.exclude("c15.required_group_missing", m[0] == "group")
            want, what = False, f"required member {m[1]} missing"
        else:
            want, what = True, f"optional member {m[1]} missing"
    elif fault == 2:  # foreign member
        inside = {x[2] for x in members}
        tag = "9999"
        if I.choice("foreign_kind", 2):
            for t in sorted(D.by_tag, key=int):
                if t not in inside:
                    tag = t
                    break
        keys.append(tag)
        item[tag] = "x"
        want, what = False, f"foreign member {tag}"
    elif fault == 3:  # two items: second one valid too
        want, what = True, "second item"
    else:  # enumerated member value
        cand = [t for t in keys if not isinstance(item[t], list) and D.fields[D.by_tag[t]][2]][:2]
        if cand:
            t = cand[I.choice("position", len(cand))]
            nv = I.fstr("value", 1, 48, 90)
            want = False
            for e in D.fields[D.by_tag[t]][2]:
                if nv == e:
                    want = True
            item[t] = nv
            what = f"value of enumerated member {D.by_tag[t]}"
    if want is None:
        return [mt, "n/a"]
    new_item = {t: item[t] for t in keys}
    # write the mutated item back at the right depth
    def rebuild(v, depth):
        if depth == len(path) - 1:
            return [new_item] + ([copy.deepcopy(new_item)] if fault == 3 else [])
        # (rebuilt key by key: overwriting a key of a dict copy is not position-preserving in
        #  CrossHair's dict model)
        return [{t: (rebuild(val, depth + 1) if t == path[depth + 1] else val) for t, val in v[0].items()}]
    inst2 = [(t, (rebuild(v, 0) if t == path[0] else v), None) for (t, v, _) in inst]
    acc = verdict(I, S, build(mt, inst2))
    I.check(acc == want, f"group {grp[1]} (depth {len(path)}): {what}: {'accepted' if acc else 'rejected'}")
    I.goal("fault-judged")
    return [mt, path, fault]


def h_order(I, dname, nprobe, kinds=(0, 1, 2)):
    """The outcome does not depend on the order in which <components> are declared."""
    S, D = load(dname, I)
    tree = ET.parse(PATHS[dname])
    comps = tree.getroot().find("components")
    items = list(comps)
    n = len(items)
    if n < 2:
        return ["no components"]
    kind = kinds[I.choice("permutation", len(kinds))]
    k = I.choice("offset", n)
    if kind == 0:
        new = items[k:] + items[:k]
    elif kind == 1:
        new = list(items)
        j = (k + 1) % n
        new[k], new[j] = new[j], new[k]
    else:
        new = list(reversed(items[k:])) + items[:k]
    for c in items:
        comps.remove(c)
    for c in new:
        comps.append(c)
    def parse():
        try:
            return FIXSchema(tree)
        except Exception as e:
            return e
    S2 = I.untraced(parse)  # nothing symbolic is involved in parsing the permuted dictionary
    if isinstance(S2, Exception):
        I.check(False, f"dictionary with permuted <components> failed to load: {type(S2).__name__}: {str(S2)[:80]}")
    types = sorted(D.messages)[:: max(1, len(D.messages) // nprobe)]
    for mt in types:
        inst = D.instance(mt)
        a = verdict(I, S, build(mt, inst))
        b = verdict(I, S2, build(mt, inst))
        I.check(a == b, f"{D.messages[mt][0]}: valid instance judged differently after permuting <components>")
        if inst:
            a = verdict(I, S, build(mt, inst[1:]))
            b = verdict(I, S2, build(mt, inst[1:]))
            I.check(a == b, f"{D.messages[mt][0]}: faulty instance judged differently after permuting <components>")
    I.goal("permuted")
    return [kind, k]


def h_stateless(I, dname):
    """Validation is a function of the message: what one schema object validated before does
    not change the verdict on the next message (the EndSeqNo=0 special case stays confined to
    tag 16)."""
    S, D = load(dname)
    fresh = I.untraced(lambda: FIXSchema(PATHS[dname]))
    first = I.choice("first_message", 3)
    if first == 0:
        a = FIXMessage("2", {7: "1", 16: "0"})          # ResendRequest with EndSeqNo=0 (legal)
    elif first == 1:
        a = FIXMessage("4", {36: "5", 123: "Y"})
    else:
        a = FIXMessage("0", {112: "0"})
    I.check(verdict(I, fresh, a), "valid session message rejected")
    v = I.fstr("value", 1, 43, 58)
    second = I.choice("second_message", 3)
    if second == 0:
        b = FIXMessage("4", {36: v})                      # SequenceReset.NewSeqNo (SEQNUM)
    elif second == 1:
        b = FIXMessage("2", {7: v, 16: "0"})             # ResendRequest.BeginSeqNo (SEQNUM)
    else:
        b = FIXMessage("2", {7: "1", 16: v})             # EndSeqNo itself
    want = ("1" <= v <= "9") or (second == 2 and v == "0")
    acc = verdict(I, fresh, b)
    I.check(acc == want, "verdict on a message depends on what the schema object validated before (or EndSeqNo special case leaked)")
    I.goal("judged")
    return [first, second, acc]


def cells(tier):
    quick = tier == "quick"
    out = []
    for dname in PATHS:
        S, D = load(dname)
        types = sorted(D.messages)
        chunk = 6
        sel = types if not quick else types[::3]
        for i in range(0, len(sel), chunk):
            part = sel[i:i + chunk]
            out.append(Cell(f"message/{dname}/{i}", (lambda I, dname=dname, part=part: h_message(I, dname, part)),
                            dict(dictionary=dname, message_types=[D.messages[t][0] for t in part],
                                 faults="drop a member at every position / unknown tag / tag not allowed in the message / value outside enumeration or type (symbolic value) / plain-vs-group at every position / header field missing"),
                            goals=["valid-accepted", "foreign-tag"], regions=["c15.required_group_missing"], budget_s=2400))
        targets = []
        for mt in types:
            for top, path, grp in groups_of(D, mt):
                targets.append((mt, top, path, grp))
        # one target per distinct group definition and nesting depth
        seen, uniq = set(), []
        for t in targets:
            key = (t[3][1], len(t[2]))
            if key not in seen:
                seen.add(key)
                uniq.append(t)
        sel = uniq if not quick else uniq[::4]
        for i in range(0, len(sel), 8):
            part = sel[i:i + 8]
            out.append(Cell(f"group/{dname}/{i}", (lambda I, dname=dname, part=part: h_group(I, dname, part)),
                            dict(dictionary=dname, groups=[f"{D.messages[t[0]][0]}:{'/'.join(t[2])}" for t in part],
                                 faults="swap adjacent members / remove a member / foreign member / second item / enumerated member value (symbolic), at every position"),
                            goals=["valid-accepted", "fault-judged"], regions=["c15.required_group_missing"], budget_s=2400))
        out.append(Cell(f"stateless/{dname}", (lambda I, dname=dname: h_stateless(I, dname)),
                        dict(dictionary=dname, first="ResendRequest(16=0) / SequenceReset / Heartbeat", second="SEQNUM field with a symbolic 1-char value in NewSeqNo / BeginSeqNo / EndSeqNo",
                             schema="fresh FIXSchema object per path"), goals=["judged"], budget_s=1200))
        for kind, kname in enumerate(("rotation", "adjacent-transposition", "reversed-tail-rotation")):
            out.append(Cell(f"declaration-order/{dname}/{kname}", (lambda I, dname=dname, kind=kind: h_order(I, dname, 3 if quick else 20, (kind,))),
                            dict(dictionary=dname, permutation=f"every {kname} of the <components> declarations",
                                 probes="valid and faulty instances of a sample of message types"), goals=["permuted"] if dname == "FIX44" else [],
                            budget_s=3000))
    return out


ASSUMPTIONS = ["reference = independent reading of the XML dictionary (checks/dictmodel.py): component references expanded recursively, a member is required iff it and every enclosing component are flagged required",
               "valid instances carry sample values per datatype (dictmodel.SAMPLE) or the first enumerator"]
STUBS = []
OUTSIDE = ["full permutations of the ~100 component declarations (rotations, adjacent transpositions and reversed-tail rotations only)",
           "more than one fault per message", "quick tier: a third of the message types and a quarter of the distinct group definitions (thorough: all)"]
