"""C16 - the order status transition function is total, closed and lifecycle-safe.

Real code executed: FIXNewOrderSingle.change_status / can_cancel / can_replace / is_finished and
_StrEnum.__eq__/__hash__ with *symbolic strings* (length <= 2) for the current status, the message
kind, the ExecType and the reported status and a symbolic error mode - so enum members, the
'omitted' ExecType marker and every non-member string of that length are one solver domain.
"""
from asyncfix.errors import FIXError
from asyncfix.protocol.common import FOrdStatus
from asyncfix.protocol.order_single import FIXNewOrderSingle

from vfx.run import Cell

FIN = ("2", "4", "8", "C")  # filled, canceled, rejected, expired
CREATED, PENDING_NEW = "Z", "A"
CXL_OK = ("0", "1", "9")  # new, partially filled, suspended
PENDING_REQ = ("6", "E")
STATUSES = tuple(s.value for s in FOrdStatus)

# Transitions the FIX 4.4 order state change matrices (Vol. 7, appendix D) require an order
# management system to follow; written from the matrices, not from the implementation's table.
# (current status, ExecType or None=any, reported status)
REQUIRED = [
    ("Z", None, "A"), ("Z", None, "8"),                      # A.1: new -> pending new / rejected
    ("A", None, "0"), ("A", None, "8"),                      # ack / reject
    ("A", None, "1"), ("A", None, "2"),                      # fill before the ack arrives
    ("0", None, "1"), ("0", None, "2"),                      # B.1: fills
    ("0", None, "4"), ("0", None, "C"),                      # unsolicited cancel, expiry
    ("0", None, "6"), ("0", None, "E"),                      # C.1/D.1 pending cancel / replace
    ("0", None, "9"), ("0", None, "3"), ("0", None, "7"),    # suspended, done for day, stopped
    ("1", None, "1"), ("1", None, "2"), ("1", None, "4"), ("1", None, "C"),
    ("1", None, "6"), ("1", None, "E"), ("1", None, "9"),
    ("6", None, "4"),                                        # C.1.a cancel accepted
    ("E", "5", "0"), ("E", "5", "1"), ("E", "5", "2"),       # D.1 replaced
    ("9", None, "0"), ("9", None, "1"), ("9", None, "4"),    # resume / cancel of suspended
]


def _call(status, kind, et, ms, roe):
    try:
        return ("ret", FIXNewOrderSingle.change_status(status, kind, et, ms, raise_on_err=roe))
    except FIXError:
        return ("err", None)
    # anything else propagates to h(), which reports it as a violation


def h_transition(I, kinds, maxlen=2):
    status = I.str("status", 1, maxlen)
    ms = I.str("msg_status", 1, maxlen)
    et = I.str("exec_type", 1, maxlen)
    ki = I.choice("kind_idx", len(kinds))
    kind = kinds[ki] if kinds[ki] is not None else I.str("kind", 1, 2)
    if kinds[ki] is None:
        I.assume(kind not in ("8", "9", "F", "G"))
    roe = I.bool("raise_on_err")
    try:
        out, r = _call(status, kind, et, ms, roe)
    except Exception as e:
        I.check(False, f"change_status raised {type(e).__name__}, not the order error")
    # -- closed: only the order error, only when asked to raise
    if out == "err":
        I.goal("error")
        I.check(roe, "order error signalled although raise_on_err=False")
    else:
        I.check(r is None or r == ms, "result is neither 'no change' nor the reported status")
        if r is None:
            I.goal("nochange")
        else:
            I.goal("transition")
    moved = out == "ret" and r is not None
    if kind == "8":
        if status in FIN:
            I.check(out == "ret" and r is None, "finished status is not absorbing for reports")
            I.goal("absorbing")
        I.check(not (moved and ms == CREATED), "a report moved the order back to created")
        if status != CREATED:
            I.check(not (moved and ms == PENDING_NEW),
                    "a report moved an acknowledged order back to pending-new")
        if status == CREATED:
            I.check(moved == (ms in (PENDING_NEW, "8")),
                    "created accepts exactly pending-new and rejected")
            if not moved:
                I.check(out == "err" or not roe, "created must refuse this report")
        for (s0, e0, m0) in REQUIRED:
            if status == s0 and ms == m0 and (e0 is None or et == e0):
                I.check(moved, f"transition required by the FIX matrices refused: {s0}->{m0}")
                I.goal("required")
        if status == "6" and ms != "4" and ms != CREATED:
            I.check(out == "ret" and r is None, "pending-cancel keeps its status until cancelled")
        if status == "E" and et != "5" and ms not in (CREATED, "D"):
            I.check(out == "ret" and r is None, "pending-replace keeps its status until replaced")
    elif kind == "9":
        I.check(not (moved and ms == CREATED), "a cancel reject moved the order back to created")
        if ms in STATUSES and ms not in (CREATED, "D"):
            I.check(moved, "cancel reject must restore the reported status")
            I.goal("reject-restores")
    elif kind in ("F", "G"):
        if status in CXL_OK:
            I.check(moved, "cancel/replace must be permitted for new/partially filled/suspended")
            I.goal("request-permitted")
        elif status in PENDING_REQ:
            I.check(out == "ret" and r is None, "request while pending must be ignored")
            I.goal("request-ignored")
        else:
            I.check(not moved, "cancel/replace permitted outside new/partially filled/suspended")
            I.check(out == "err" or not roe, "request must be refused with the order error")
            I.goal("request-refused")
    else:
        I.check(not moved, "unsupported message kind produced a transition")
        I.goal("unsupported")
    return [out, r]


def h_predicates(I):
    """can_cancel / can_replace / is_finished on an order object with a symbolic status string."""
    status = I.str("status", 1, 2)
    o = FIXNewOrderSingle("root", "T", "1", 10.0, 5)
    o.status = status
    try:
        cc, cr, fin = o.can_cancel(), o.can_replace(), o.is_finished()
    except Exception as e:
        I.check(False, f"predicate raised {type(e).__name__}")
    I.check(cc == (status in CXL_OK), "can_cancel() must hold exactly for new/part-filled/suspended")
    I.check(cr == (status in CXL_OK), "can_replace() must hold exactly for new/part-filled/suspended")
    I.check(fin == (status in FIN), "is_finished() must hold exactly for the finished statuses")
    if cc:
        I.goal("can")
    if fin:
        I.goal("finished")
    return [cc, cr, fin]


def cells(tier):
    b = dict(status="all strings, 1..2 chars in [0x20,0x7e]", msg_status="same", exec_type="same",
             raise_on_err="symbolic bool")
    out = []
    for name, kinds in (("exec-report", ["8"]), ("cancel-reject", ["9"]),
                        ("requests", ["F", "G"]), ("unsupported", [None])):
        goals = {"exec-report": ["error", "nochange", "transition", "absorbing", "required"],
                 "cancel-reject": ["error", "transition", "reject-restores"],
                 "requests": ["request-permitted", "request-ignored", "request-refused"],
                 "unsupported": ["unsupported"]}[name]
        ml = 1 if (name == "unsupported" and tier == "quick") else 2
        bb = dict(b, kind=kinds if kinds != [None] else "any 1..2-char string but 8/9/F/G")
        if ml == 1:
            bb.update(status="all 1-char strings in [0x20,0x7e]")
        out.append(Cell("transition/" + name, (lambda I, k=kinds, ml=ml: h_transition(I, k, ml)),
                        bb, goals=goals))
    out.append(Cell("predicates", h_predicates, dict(status=b["status"]), goals=["can", "finished"]))
    return out


ASSUMPTIONS = [
    "statuses / kinds / ExecTypes longer than 2 characters are outside the bound (all enum values are 1 char; msg kinds <= 2)",
    "oracle for cancel rejects (kind 9): never back to created; every genuine reported status is restored (as the repo's own tests pin for pending states)",
]
OUTSIDE = ["non-string arguments other than those the library itself passes (0 for the omitted ExecType is covered by the symbolic string domain only in so far as no ExecType equals it)"]
