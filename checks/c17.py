"""C17 - an order object converges to the exchange's view of the order.

Real code executed: FIXNewOrderSingle.new_req / cancel_req / replace_req / process_execution_report /
process_cancel_rej_report / clord_next / clord_root (regex) / can_cancel / can_replace / is_finished /
change_status.

(i)  'step' cells: one client action or one exchange report with symbolic fields from an
     arbitrary order state under the representation invariant.
(ii) 'race' cells: bounded interleavings of client actions and the actions of an exchange model
     written in this file from the FIX 4.4 order state change matrices (Vol. 4, appendix D), with an
     in-flight queue in each direction; every scheduling decision is a solver-chosen index, the
     ClOrdID root, quantities and the fill size are symbolic.
"""
from math import nan

from asyncfix import FIXMessage, FMsg, FTag
from asyncfix.errors import FIXError
from asyncfix.protocol.common import FExecType, FOrdStatus
from asyncfix.protocol.order_single import FIXNewOrderSingle

from vfx.run import Cell

ST = FOrdStatus
FINISHED = ("2", "4", "8", "C")
STATUS_VALUES = tuple(s.value for s in FOrdStatus)


def is_member(x):
    return isinstance(x, FOrdStatus)


# --------------------------------------------------------------------------- exchange model
class Exchange:
    """The counterparty's view of one order, following the FIX 4.4 order state change matrices."""

    def __init__(self):
        self.known = False
        self.base = None       # order status without pending requests: "0","1","2","4","8","C"
        self.live_id = None
        self.qty = self.price = None
        self.cum = 0
        self.pending = None    # None | dict(kind, clord, orig, price, qty, acked)
        self.order_id = "X1"
        self.exec_n = 0

    def finished(self):
        return self.base in FINISHED

    def leaves(self):
        return 0 if self.finished() else self.qty - self.cum

    def status(self):
        """OrdStatus reported: pending cancel / replace have the highest precedence."""
        if self.pending is not None and self.pending["acked"] and not self.finished():
            return "6" if self.pending["kind"] == "cancel" else "E"
        return self.base

    def report(self, exec_type, clord, orig=None, status=None, replaced=False):
        self.exec_n += 1
        m = FIXMessage(FMsg.EXECUTIONREPORT)
        m[FTag.ClOrdID] = clord
        if orig is not None:
            m[FTag.OrigClOrdID] = orig
        m[FTag.OrderID] = self.order_id
        m[FTag.ExecID] = "E%d" % self.exec_n
        m[FTag.ExecType] = exec_type
        m[FTag.OrdStatus] = status if status is not None else self.status()
        m[FTag.CumQty] = self.cum
        m[FTag.LeavesQty] = self.leaves()
        m[FTag.AvgPx] = 0
        if replaced:
            m[FTag.Price] = self.price
            m[FTag.OrderQty] = self.qty
        return m

    def reject_request(self, req):
        m = FIXMessage(FMsg.ORDERCANCELREJECT)
        m[FTag.OrderID] = self.order_id
        m[FTag.ClOrdID] = req["clord"]
        m[FTag.OrigClOrdID] = req["orig"]
        m[FTag.OrdStatus] = self.base
        m[FTag.CxlRejResponseTo] = "1" if req["kind"] == "cancel" else "2"
        return m

    # -- requests arriving at the exchange
    def recv(self, req):
        """Returns the list of exchange actions now possible is not needed: requests are stored."""
        if req["kind"] == "new":
            self.known = True
            self.base = "A"
            self.live_id = req["clord"]
            self.qty, self.price = req["qty"], req["price"]
            return []
        if self.finished() or self.pending is not None:
            return [self.reject_request(req)]  # too late / already pending
        self.pending = dict(req, acked=False)
        return []

    # -- exchange actions: name -> applicable?
    def actions(self):
        a = []
        if not self.known:
            return a
        if self.base == "A":
            a += ["ack", "reject"]
        elif not self.finished():
            if self.leaves() > 0:
                a += ["fill-part", "fill-all"]
            a += ["expire"]
            if self.pending is not None:
                if not self.pending["acked"]:
                    a.append("pending-ack")
                a += ["request-accept", "request-reject"]
        return a

    def act(self, name, part):
        out = []
        if name == "ack":
            self.base = "0"
            out.append(self.report("0", self.live_id))
        elif name == "reject":
            self.base = "8"
            out.append(self.report("8", self.live_id))
        elif name in ("fill-part", "fill-all"):
            q = part if name == "fill-part" else self.leaves()
            self.cum += q
            self.base = "2" if self.qty - self.cum == 0 else "1"
            out.append(self.report("F", self.live_id))
            if self.finished() and self.pending is not None:
                out.append(self.reject_request(self.pending))
                self.pending = None
        elif name == "expire":
            self.base = "C"
            out.append(self.report("C", self.live_id))
            if self.pending is not None:
                out.append(self.reject_request(self.pending))
                self.pending = None
        elif name == "pending-ack":
            self.pending["acked"] = True
            p = self.pending
            out.append(self.report("6" if p["kind"] == "cancel" else "E", p["clord"], p["orig"]))
        elif name == "request-reject":
            out.append(self.reject_request(self.pending))
            self.pending = None
        elif name == "request-accept":
            p = self.pending
            self.pending = None
            if p["kind"] == "cancel":
                self.base = "4"
                out.append(self.report("4", p["clord"], p["orig"]))
            else:
                if p["qty"] < self.cum:  # cannot reduce below what is already filled
                    self.pending = None
                    out.append(self.reject_request(p))
                    return out
                self.qty, self.price = p["qty"], p["price"]
                self.live_id = p["clord"]
                self.base = "2" if self.qty == self.cum else ("1" if self.cum > 0 else "0")
                out.append(self.report("5", p["clord"], p["orig"], replaced=True))
        return out


# --------------------------------------------------------------------------- common checks
def check_client(I, o, used):
    I.check(is_member(o.status), f"order status is not a member of the status enum any more: {o.status!r}")
    I.check(o.clord_id is not None and len(o.clord_id) > 0, "order lost its ClOrdID")


def try_request(I, o, kind, used, price=None, qty=None):
    """Client builds a cancel / replace request if the order says it can; returns the request dict."""
    can = o.can_cancel() if kind == "cancel" else o.can_replace()
    live_before = o.clord_id
    try:
        m = o.cancel_req() if kind == "cancel" else o.replace_req(price, qty)
    except FIXError:
        I.check(not can or kind == "replace", "order says it can be cancelled but building the request was refused")
        return None
    except AssertionError:
        I.check(False, "building a request the order permits fails an internal assertion")
    except Exception as e:
        I.check(False, f"building a request raised {type(e).__name__}")
    I.check(can, "request built although the order says it cannot be cancelled / replaced")
    cl, orig = m[FTag.ClOrdID], m[FTag.OrigClOrdID]
    I.check(cl not in used, "request reuses a ClOrdID")
    I.check(orig == live_before, "OrigClOrdID is not the ClOrdID the order was live under")
    I.check(o.status == (ST.PENDING_CANCEL if kind == "cancel" else ST.PENDING_REPLACE), "status after building a request")
    I.check(not o.can_cancel() and not o.can_replace(), "second request permitted while one is outstanding")
    used.append(cl)
    d = dict(kind=kind, clord=cl, orig=orig)
    if kind == "replace":
        d.update(price=float(m[FTag.Price]), qty=float(m[FTag.OrderQty]))
    return d


def converged(I, o, ex, used):
    """Everything in flight has been processed: the order object equals the exchange's view."""
    I.check(o.status == ex.status(), "status differs from the exchange's after everything in flight was processed")
    I.check(o.cum_qty == ex.cum and o.leaves_qty == ex.leaves(), "filled / remaining quantity differs from the exchange's")
    if ex.known and ex.base != "A":
        I.check(float(o.qty) == float(ex.qty) and float(o.price) == float(ex.price), "price / quantity differs from the exchange's")
    if ex.finished():
        I.check(o.is_finished(), "finished at the exchange but not reported finished")
        I.check(not o.can_cancel() and not o.can_replace(), "finished order still permits requests")
        for kind in ("cancel", "replace"):
            try:
                (o.cancel_req() if kind == "cancel" else o.replace_req(1.0, 1.0))
                I.check(False, "finished order built a request")
            except FIXError:
                pass
        I.goal("finished")
    elif ex.pending is None and ex.base in ("0", "1"):
        I.check(o.can_cancel() and o.can_replace(), "live order with nothing outstanding does not permit requests")
        r = try_request(I, o, "cancel", used)
        I.check(r is not None, "cancel request refused for a live order")
        I.check(r["orig"] == ex.live_id, "request does not refer to the ClOrdID the order is live under at the exchange")
        I.goal("live-can-cancel")


# --------------------------------------------------------------------------- (ii) races
def h_race(I, depth, first_moves):
    root = "ORD"
    qty = 10
    o = FIXNewOrderSingle(root, "T", "1", 100.0, qty)
    ex = Exchange()
    used = []
    c2e, e2c = [], []
    part = 3
    new_qty = (12, 5, 3, 2)[I.choice("new_qty_idx", 4)]  # increase / decrease / to the filled amount / below it
    m = o.new_req()
    used.append(m[FTag.ClOrdID])
    I.check(m[FTag.ClOrdID] == root + "--1", "first ClOrdID is not root--1")
    c2e.append(dict(kind="new", clord=m[FTag.ClOrdID], qty=float(m[FTag.OrderQty]), price=float(m[FTag.Price])))
    check_client(I, o, used)
    for step in range(depth):
        moves = []
        if c2e:
            moves.append("deliver-request")
        if e2c:
            moves.append("deliver-report")
        moves += ["x:" + a for a in ex.actions() if not (a == "fill-part" and (ex.leaves() <= part))]
        if o.can_cancel():
            moves += ["client-cancel", "client-replace"]
        if not moves:
            break
        if step < len(first_moves):
            fm = first_moves[step]
            if isinstance(fm, int):  # shard on the index of the move
                I.assume(fm < len(moves))
                mv = moves[fm]
            else:
                I.assume(fm in moves)
                mv = fm
        else:
            mv = moves[I.choice(f"move{step}", len(moves))]
        if mv == "deliver-request":
            e2c += ex.recv(c2e.pop(0))
        elif mv == "deliver-report":
            r = e2c.pop(0)
            try:
                if r.msg_type == FMsg.EXECUTIONREPORT:
                    o.process_execution_report(r)
                else:
                    o.process_cancel_rej_report(r)
            except Exception as e:
                I.check(False, f"processing a report of a matrix-conformant exchange raised {type(e).__name__}: {e}")
        elif mv.startswith("x:"):
            e2c += ex.act(mv[2:], part)
        elif mv == "client-cancel":
            r = try_request(I, o, "cancel", used)
            if r:
                c2e.append(r)
        elif mv == "client-replace":
            r = try_request(I, o, "replace", used, 101.0, float(new_qty))
            if r:
                c2e.append(r)
        check_client(I, o, used)
    # drain everything in flight (requests first, then the exchange answers what is pending)
    guard = 0
    while (c2e or e2c or ex.pending is not None) and guard < 12:
        guard += 1
        if c2e:
            e2c += ex.recv(c2e.pop(0))
        elif e2c:
            r = e2c.pop(0)
            try:
                if r.msg_type == FMsg.EXECUTIONREPORT:
                    o.process_execution_report(r)
                else:
                    o.process_cancel_rej_report(r)
            except Exception as e:
                I.check(False, f"processing a report raised {type(e).__name__}: {e}")
            check_client(I, o, used)
        else:
            e2c += ex.act("request-accept" if I.bool(f"drain_accept{guard}") else "request-reject", part)
    I.check(guard < 12, "harness: drain did not terminate")
    if ex.known and ex.base != "A":
        converged(I, o, ex, used)
    I.goal("quiescent")
    return [str(o.status), o.cum_qty, o.leaves_qty, len(used)]


# --------------------------------------------------------------------------- (i) steps
def h_clord(I):
    """ClOrdID chaining: root extraction and fresh ids for every root that does not itself end in
    the '--<n>' suffix."""
    root = I.str("root", 1, 4, 33, 126)
    I.assume(FIXNewOrderSingle.clord_root(root) == root)
    n = I.int("count", 0, 999)
    o = FIXNewOrderSingle(root, "T", "1", 1.0, 1)
    o._clord_id_cnt = n
    if n > 0:
        o.clord_id = root + "--" + str(n)
    nxt = o.clord_next()
    I.check(nxt == root + "--" + str(n + 1), "next ClOrdID is not root--(n+1)")
    I.check(FIXNewOrderSingle.clord_root(nxt) == root, "root of a chained ClOrdID is not the original root")
    I.goal("chained")
    return [nxt]


def h_reject_step(I):
    """A request, then its reject with an arbitrary reported status: the order must stay usable."""
    root = I.str("root", 1, 2, 65, 122)
    I.assume(FIXNewOrderSingle.clord_root(root) == root)
    cnt = I.int("count", 1, 99)
    st0 = ("0", "1", "9")[I.choice("status", 3)]
    o = FIXNewOrderSingle(root, "T", "1", 10.0, 5)
    o._clord_id_cnt = cnt
    o.clord_id = root + "--" + str(cnt)
    o.status = FOrdStatus(st0)
    live = o.clord_id
    used = [live]
    kind = ("cancel", "replace")[I.choice("kind", 2)]
    req = try_request(I, o, kind, used, 11.0, 6.0)
    I.check(req is not None, "request refused for a live order")
    rs = STATUS_VALUES[I.choice("reported_status", len(STATUS_VALUES))]
    rej = FIXMessage(FMsg.ORDERCANCELREJECT, {37: "1", 11: req["clord"], 41: req["orig"], 434: "1"})
    rej.tags["39"] = rs
    try:
        o.process_cancel_rej_report(rej)
    except Exception as e:
        I.check(False, f"cancel reject raised {type(e).__name__}")
    check_client(I, o, used)
    if rs in ("0", "1", "9"):
        I.check(o.can_cancel(), "live status restored by the reject but the order cannot be cancelled")
        r2 = try_request(I, o, "cancel", used)
        I.check(r2 is not None, "second request after a reject was refused")
        I.check(r2["orig"] == live, "request after a reject does not refer to the ClOrdID the order is live under")
        I.goal("request-after-reject")
    return [str(o.status)]


BASES = (1.2e-06, 0.01, 1.0, 100.0, 123456.78)


def h_replace_delta(I):
    """Every price / quantity change the floats can tell apart is a change: the replace request of
    a live order builds, carries exactly the requested values, and after the exchange's REPLACED
    report the order holds them.  Magnitudes from 1e-6 to 1e5, steps from 5 down to 1e-12."""
    field = I.choice("field", 3)  # price / qty / both
    b = BASES[I.choice("base", len(BASES))]
    k = (1, 2, 5)[I.choice("mantissa", 3)]
    e = I.choice("exponent", 13)
    sign = I.choice("sign", 2)

    def body():
        new = b + k * 10.0 ** -e * (1 if sign == 0 else -1)
        if new <= 0 or new == b:
            return ["no distinct positive value"]
        p0, q0 = (b if field != 1 else 100.0), (b if field != 0 else 10.0)
        p1, q1 = (new if field != 1 else p0), (new if field != 0 else q0)
        o = FIXNewOrderSingle("ORD", "T", "1", p0, q0)
        o.new_req()
        ex = Exchange()
        ex.recv(dict(kind="new", clord=o.clord_id, qty=q0, price=p0))
        ex.base = "0"
        o.process_execution_report(ex.report("0", o.clord_id))
        I.check(o.can_replace(), "acknowledged order cannot be replaced")
        used = [o.clord_id]
        r = try_request(I, o, "replace", used, p1 if field != 1 else nan, q1 if field != 0 else nan)
        I.check(r is not None, "replace request refused although the order can be replaced and the value differs")
        I.check(r["price"] == p1 and r["qty"] == q1, "replace request does not carry the requested price / quantity")
        ex.qty, ex.price, old = q1, p1, ex.live_id
        ex.live_id = r["clord"]
        o.process_execution_report(ex.report("5", r["clord"], orig=old, replaced=True))
        I.check(float(o.price) == p1 and float(o.qty) == q1, "price / quantity differs from the exchange's after REPLACED")
        I.check(o.status == ST.NEW, "status after REPLACED")
        I.goal("replaced")
        return [repr(p1), repr(q1)]
    return I.untraced(body)


def cells(tier):
    quick = tier == "quick"
    out = [Cell("clord-chain", h_clord, dict(root="symbolic 1..4 printable chars not ending in --<digits>", counter="symbolic in [0,999]"), goals=["chained"]),
           Cell("reject-step", h_reject_step, dict(status="new / partially filled / suspended", request="cancel / replace", reported_status="every member of the status enum",
                                                   root="symbolic 1..2 letters", counter="symbolic"), goals=["request-after-reject"])]
    out.append(Cell("replace-delta", h_replace_delta,
                    dict(field="price / quantity / both", base=list(BASES), step="+-{1,2,5} x 10^-e, e in 0..12 (all solver-chosen structural values; body concrete)"),
                    goals=["replaced"]))
    depth = 8 if quick else 10
    mv = "deliver request / deliver report / exchange: ack, reject, partial fill, full fill, expire, pending-ack, accept, reject request / client: cancel, replace"
    out.append(Cell("race/new-rejected", lambda I: h_race(I, depth, ["deliver-request", "x:reject"]),
                    dict(depth=depth, prefix=["deliver-request", "x:reject"], then="every interleaving", moves=mv), goals=["quiescent", "finished"], budget_s=3000))
    for k2 in range(4):
        for k3 in range(5):
            ff = ["deliver-request", "x:ack", k2, k3]
            out.append(Cell(f"race/acked/{k2}.{k3}", (lambda I, ff=ff: h_race(I, depth, ff)),
                            dict(depth=depth, prefix=["deliver-request", "x:ack", f"move #{k2}", f"move #{k3}"],
                                 then="every interleaving (solver-chosen move per step)", moves=mv,
                                 qty=10, fill=3, new_qty="one of 12 / 5 / 3 / 2 (symbolic choice)", root="ORD"),
                            goals=[], budget_s=3000))
    return out


ASSUMPTIONS = ["the exchange model (class Exchange in this file) follows the FIX 4.4 order state change matrices: OrdStatus precedence (pending cancel / replace over fills), too-late requests are rejected with the final OrdStatus, fills during a pending request are reported under the live ClOrdID",
               "prices and quantities in the race cells are integers rendered through float(); fractional values and tiny steps are covered by the replace-delta cell on a grid of magnitudes and steps (str(float) is C code, so values are concrete per path)",
               "TransactTime comes from the stubbed clock"]
STUBS = ["FIXNewOrderSingle.current_datetime -> fixed"]
OUTSIDE = ["interleavings longer than the stated depth", "suspend / resume, done-for-day, stopped reports in the race cells (covered by C16's transition function check)", "more than one order"]
