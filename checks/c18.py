"""C18 - message containers behave as ordered tag maps with strict duplicate rules.

Real code executed: FIXContainer.set / get / __getitem__ / __setitem__ / __delitem__ / __contains__ /
is_group / add_group / set_group / get_group_list / get_group_by_index / get_group_by_tag / query /
__eq__ / items, FIXMessage, FTag (with the OrderedDict model of vfx/chx.py, so symbolic tags are
compared, not hashed).  Formulation: an arbitrary small container built from symbolic tags and
values, then one operation with symbolic arguments, compared with a reference ordered map.
"""
from asyncfix import FIXMessage, FTag
from asyncfix.errors import (DuplicatedTagError, FIXMessageError, RepeatingTagError, TagNotFoundError,
                             UnmappedRepeatedGrpError)
from asyncfix.message import FIXContainer
from asyncfix.protocol.common import FOrdSide

from vfx.run import Cell

FTAGS = (FTag.Account, FTag.ClOrdID, FTag.Price, FTag.NoPartyIDs)  # "1", "11", "44", "453"


def content(c):
    """Observable content: ordered (tag, value | [item contents])."""
    out = []
    for t, v in c.items():
        if c.is_group(t):
            out.append((t, [content(g) for g in c.get_group_list(t)]))
        else:
            out.append((t, v))
    return out


def spell(I, name, tag):
    """The tag given as int, decimal string or (if it is one of a few) tag enum member."""
    how = I.choice(name, 2)
    return tag if how == 0 else str(tag)


def build(I, n, hi):
    """Container with n plain entries: symbolic distinct tags, symbolic values; plus the model."""
    c = FIXMessage("D") if (n == 1 and I.choice("kind_of_container", 2)) else FIXContainer()
    model = []
    for k in range(n):
        t = I.int(f"tag{k}", 1, hi)
        v = I.str(f"val{k}", 0, 1)  # the empty string is a value too
        dup = False
        for (mt, mv) in model:
            if mt == str(t):
                dup = True
        try:
            c.set(spell(I, f"spell{k}", t), v)
            I.check(not dup, "setting an existing tag without replace succeeded")
            model.append((str(t), v))
        except DuplicatedTagError:
            I.check(dup, "duplicate error for a tag that is not present")
            I.goal("duplicate-refused")
        I.check(content(c) == model, "container content differs from the model after set")
    return c, model


def h_set_get(I, n, hi, fixed_op=None):
    c, model = build(I, n, hi)
    q = I.int("query_tag", 1, hi)
    present = None
    for (mt, mv) in model:
        if mt == str(q):
            present = mv
    sp = spell(I, "query_spell", q)
    I.check((sp in c) == (present is not None), "__contains__ differs from the model")
    try:
        got = c.get(sp)
        I.check(present is not None and got == present, "get returned something else than what was written")
        I.check(c[sp] == present, "__getitem__ differs from get")
        I.goal("found")
    except TagNotFoundError:
        I.check(present is None, "TagNotFoundError for a tag that is present")
        I.check(c.get(sp, None) is None and c.get(sp, "dflt") == "dflt", "default not returned for a missing tag")
        I.goal("missing")
    I.check(c.is_group(sp) == (None if present is None else False), "is_group differs from the model")
    # replace / delete
    op = I.choice("op", 3) if fixed_op is None else fixed_op
    nv = I.fstr("new_val", 1)
    before = content(c)
    if op == 0:
        c.set(sp, nv, replace=True)
        exp = [(t, (nv if t == str(q) else v)) for (t, v) in model]
        if present is None:
            exp.append((str(q), nv))
        I.check(content(c) == exp, "replace=True did not replace in place / append")
    elif op == 1:
        try:
            c[sp] = nv
            I.check(present is None, "__setitem__ overwrote an existing tag")
            I.check(content(c) == model + [(str(q), nv)], "new tag not appended at the end")
        except DuplicatedTagError:
            I.check(present is not None, "duplicate error for a missing tag")
            I.check(content(c) == before, "refused set changed the container")
    else:
        try:
            del c[sp]
            I.check(present is not None, "deleting a missing tag succeeded")
            I.check(content(c) == [(t, v) for (t, v) in model if t != str(q)], "delete removed something else")
        except KeyError:
            I.check(present is None, "KeyError deleting a present tag")
    return [content(c)]


def h_tag_spelling(I):
    """Non-integer tags are refused; int / decimal string / enum spellings address the same entry."""
    c = FIXContainer()
    kind = I.choice("tag_kind", 3)
    v = I.str("val", 1, 2)
    if kind == 0:
        bad = I.fstr("bad_tag", 1, 33, 126)
        if I.bool("digit_prefix"):
            bad = "1" + bad
        digits_only = True
        junk = False
        for ch in bad:
            if not ("0" <= ch <= "9"):
                digits_only = False
                if ch not in "+-_":
                    junk = True
        try:
            c.set(bad, v)
            I.check(not junk, "tag that is not an integer was accepted")
            I.goal("accepted")
        except FIXMessageError:
            I.check(not digits_only, "decimal tag refused")
            I.check(len(c.tags) == 0, "refused tag left something in the container")
            I.goal("refused")
        except Exception as e:
            I.check(False, f"non-integer tag raised {type(e).__name__}, not the message error")
    elif kind == 1:
        ft = FTAGS[I.choice("ftag", len(FTAGS))]
        c.set(ft, v)
        I.check(c.get(int(ft.value)) == v and c.get(ft.value) == v and c[ft] == v and ft in c and int(ft.value) in c,
                "enum / int / string spellings of a tag do not address the same entry")
        I.check(content(c) == [(ft.value, v)], "tag not stored under its decimal string")
        I.goal("enum")
    else:
        t = I.int("tag", 0, 9999)
        val_kind = I.choice("value_kind", 4)
        val = (I.int("int_val", -999, 999), 21.5, FOrdSide.SELL, v)[val_kind]
        c.set(t, val)
        I.check(c.get(str(t)) == str(val) and c[t] == str(val), "value read back is not the string form of what was written")
        I.goal("typed-value")
    return [content(c)]


def _mk_group(I, hi):
    c = FIXMessage("D")
    gt = I.int("group_tag", 1, hi)
    pt = 7
    I.assume(gt != pt)
    c.set(pt, "plain")
    n = 1 + I.choice("items", 2)
    vals = [I.fstr(f"item{k}", 1) for k in range(n)]
    if I.choice("build_with", 2):
        c.set_group(gt, [{1: vals[k], 2: "x%d" % k} for k in range(n)])
    else:
        for k in range(n):
            c.add_group(gt if k else str(gt), FIXContainer({1: vals[k], 2: "x%d" % k}))
    return c, gt, pt, [vals[k] for k in range(n)]


def h_groups(I, hi, part):
    """Group accessors: insertion / index order, lookup by index and by member value."""
    c, gt, pt, model = _mk_group(I, hi)
    if part == "order":
        idx = I.int("index", -4, 3)  # "where to insert" (list.insert semantics, also for negative positions); the default -1 appends
        nv = I.fstr("inserted", 1)
        c.add_group(gt, {1: nv, 2: "ins"}, index=idx)
        if idx == -1:
            model.append(nv)
        else:
            model.insert(idx, nv)
        I.goal("inserted")
    gl = c.get_group_list(spell(I, "gl_spell", gt))
    I.check([g.get(1) for g in gl] == model, "group items not in insertion / index order")
    I.check(c.is_group(gt) is True and c.is_group(pt) is False, "is_group wrong")
    if part == "order":
        return [model]
    k = I.int("by_index", 0, 4)
    try:
        g = c.get_group_by_index(gt, k)
        I.check(k < len(model) and g.get(1) == model[k], "get_group_by_index returned the wrong item")
    except TagNotFoundError:
        I.check(k >= len(model), "index inside the group reported as missing")
        I.goal("index-out-of-range")
    probe = I.fstr("probe_value", 1)
    first = None
    for m in model:
        if first is None and m == probe:
            first = m
    try:
        g = c.get_group_by_tag(gt, 1, probe)
        I.check(first is not None and g.get(1) == probe, "get_group_by_tag returned a non-matching item")
        I.goal("by-tag")
    except TagNotFoundError:
        I.check(first is None, "get_group_by_tag missed an existing item")
    return [model]


def h_set_group_edge(I, hi):
    """set_group with an empty list creates an (empty) group; an invalid element is refused and
    leaves the container unchanged."""
    c = FIXContainer({11: "x"})
    gt = I.int("group_tag", 1, hi)
    I.assume(gt != 11)
    which = I.choice("case", 2)
    if which == 0:
        c.set_group(spell(I, "spell", gt), [])
        I.check(gt in c and c.is_group(gt) is True, "set_group(tag, []) did not create the group tag")
        I.check(c.get_group_list(gt) == [], "empty group does not read back as an empty list")
        try:
            c.set_group(gt, [{1: "a"}])
            I.check(False, "set_group over an existing (empty) group succeeded")
        except DuplicatedTagError:
            pass
        I.check(not (c == FIXContainer({11: "x"})), "container with an empty group equals the container without it")
        I.goal("empty-group")
    else:
        n = I.choice("valid_items_before", 3)
        before = content(c)
        try:
            c.set_group(gt, [{1: "v%d" % k} for k in range(n)] + [12345])
            I.check(False, "set_group accepted a non-container item")
        except FIXMessageError:
            pass
        I.check(content(c) == before, "refused set_group left a partial group behind")
        I.goal("refused-group")
    return [content(c)]


def h_group_errors(I, hi):
    """Missing, plain and group tags are distinguished by the documented errors; refused
    operations leave the container unchanged."""
    c, gt, pt, model = _mk_group(I, hi)
    q = I.int("other_tag", 1, hi)
    try:
        c.get_group_list(q)
        I.check(q == gt, "get_group_list succeeded for a non-group tag")
    except UnmappedRepeatedGrpError:
        I.check(q == pt, "UnmappedRepeatedGrpError for a tag that is not a plain tag")
        I.goal("plain-as-group")
    except TagNotFoundError:
        I.check(q != pt and q != gt, "TagNotFoundError for a present tag")
        I.goal("missing-group")
    try:
        c.get(gt)
        I.check(False, "get() of a group tag returned a value")
    except (TagNotFoundError, RepeatingTagError):
        I.check(False, "get() of a group tag reported as missing / repeated")
    except FIXMessageError:
        I.goal("group-as-plain")
    before = content(c)
    try:
        c.set_group(gt, [{1: "z"}])
        I.check(False, "set_group over an existing group succeeded")
    except DuplicatedTagError:
        pass
    try:
        c.set(gt, "v")
        I.check(False, "set over an existing group tag succeeded")
    except DuplicatedTagError:
        pass
    try:
        c.add_group(q, 5)
        I.check(False, "add_group accepted a non-container item")
    except FIXMessageError:
        pass
    I.check(content(c) == before, "refused operations changed the container")
    return [model]


def h_equality(I, hi, symtags):
    """Equality with another container and with a plain dict."""
    if symtags:
        a, model = FIXContainer(), []
        t0 = I.int("tag0", 1, hi)
        t1 = I.int("tag1", 1, hi)
        I.assume(t0 != t1)
        for t in (t0, t1):
            I.assume(t != 8 and t != 9 and t != 10 and t != 35)
        a.set(t0, "a")
        a.set(t1, "b")
        model = [(str(t0), "a"), (str(t1), "b")]
    else:
        a = FIXContainer()
        model = [("11", I.fstr("val0", 1)), ("55", I.fstr("val1", 1))]
        for (t, v) in model:
            a.set(t, v)
    b = FIXContainer()
    same = True
    bm = []
    for k, (t, v) in enumerate(model):
        if I.bool(f"change_value{k}"):
            nv = I.fstr(f"other_val{k}", 1) if not symtags else "c"
            if nv != v:
                same = False
            b.set(t, nv)
            bm.append((t, nv))
        else:
            b.set(t, v)
            bm.append((t, v))
    if I.bool("extra_entry"):
        et = I.int("extra_tag", 1, hi) if symtags else 7
        dup = False
        for (t, v) in bm:
            if t == str(et):
                dup = True
        I.assume(not dup)
        I.assume(et != 8 and et != 9 and et != 10 and et != 35)
        b.set(et, "e")
        bm.append((str(et), "e"))
        same = False
    I.check((a == b) == same, "container equality does not match content equality")
    I.check((b == a) == same, "container equality is not symmetric")
    if not symtags:  # a real dict hashes its keys: only with concrete tags
        d = {}
        for (t, v) in bm:
            d[t] = v
        ft = (None, "8", "9", "10", "35")[I.choice("framing_tag_in_dict", 5)]
        if ft is not None:
            d[ft] = "whatever"
        I.check((a == d) == same, "equality with a dict does not match content (framing tags must be ignored)")
    I.check((a == 5) is False, "equality with a non-container is not False")
    if same:
        I.goal("equal")
    else:
        I.goal("different")
    if not symtags:  # query() maps tags through the FTag enum (a 950-entry lookup per symbolic tag)
        q = a.query()
        I.check(len(q) == len(model), "query() without arguments does not return every tag")
        q2 = a.query(11, "55", FTag.Account)
        I.check(q2 == {FTag.ClOrdID: model[0][1], FTag.Symbol: model[1][1], FTag.Account: None},
                "query(tags) does not return the values (None for a missing tag)")
    return [same]


def h_eq_rendering(I):
    """Two containers with different content whose text renderings could coincide."""
    v = I.fstr("long_value", 5)
    w = I.fstr("short_value", 1)
    x = I.fstr("second_value", 1)
    t = I.int("second_tag", 1, 9)
    a = FIXContainer({11: v})
    b = FIXContainer({11: w})
    b.set(t, x)
    I.check((a == b) is False and (b == a) is False, "containers with different tags compare equal")
    I.goal("different")
    return [1]


def cells(tier):
    quick = tier == "quick"
    hi = 99 if quick else 999
    tb = f"symbolic ints in [1,{hi}], spelled as int or decimal string (symbolic choice)"
    vb = "symbolic printable strings of 0..1 chars"
    out = []
    for n in (1, 2):
        for op, oname in ((None, "any"),) if n == 1 else ((0, "replace"), (1, "setitem"), (2, "delete")):
            out.append(Cell(f"set-get/{n}/{oname}", (lambda I, n=n, op=op: h_set_get(I, n, hi, op)), dict(entries=n, tags=tb, values=vb,
                            then="contains / get / default, then " + ("replace / __setitem__ / delete" if op is None else oname) + " with a symbolic tag"),
                            goals=["found", "missing"] + (["duplicate-refused"] if n > 1 else []), budget_s=2400))
    out.append(Cell("tag-spelling", h_tag_spelling, dict(bad_tags="every 1-char printable string, alone or after the digit 1", enum=[f.name for f in FTAGS],
                                                         values="str / int (symbolic) / float / enum"),
                    goals=["accepted", "refused", "enum", "typed-value"]))
    out.append(Cell("groups/order", lambda I: h_groups(I, hi, "order"), dict(tags=tb, items="1..2 + insertion at a symbolic index in [-4,3]", values=vb),
                    goals=["inserted"], budget_s=2400))
    out.append(Cell("groups/lookup", lambda I: h_groups(I, hi, "lookup"), dict(tags=tb, items="1..2", by_index="symbolic in [0,4]", by_value="symbolic", values=vb),
                    goals=["index-out-of-range", "by-tag"], budget_s=2400))
    out.append(Cell("set-group-edge", lambda I: h_set_group_edge(I, hi), dict(tags=tb, cases="empty list / invalid element after 0..2 valid ones"),
                    goals=["empty-group", "refused-group"]))
    out.append(Cell("group-errors", lambda I: h_group_errors(I, hi), dict(tags=tb, items="1..2", values=vb),
                    goals=["plain-as-group", "missing-group", "group-as-plain"], budget_s=2400))
    out.append(Cell("equality/values", lambda I: h_equality(I, 99, False), dict(entries=2, tags="11, 55", values=vb,
                    other="same / changed values / extra entry with a symbolic tag; dict with one optional framing tag"),
                    goals=["equal", "different"], budget_s=2400))
    out.append(Cell("equality/tags", lambda I: h_equality(I, 99, True), dict(entries=2, tags="symbolic in [1,99]", values="fixed",
                    other="same / changed values / extra entry with a symbolic tag; dict with one optional framing tag"),
                    goals=["equal", "different"], budget_s=2400))
    out.append(Cell("equality/rendering", h_eq_rendering, dict(a="{11: 5 symbolic chars}", b="{11: 1 symbolic char, <symbolic 1-digit tag>: 1 symbolic char}"),
                    goals=["different"]))
    return out


ASSUMPTIONS = ["collections.OrderedDict is replaced by an insertion-ordered association list with symbolic key equality (vfx/chx.py); every path is re-run on the real OrderedDict in the concrete replay",
               "tags that int() accepts but that are not plain decimal digits ('+5', '1_0') are neither required to be accepted nor to be refused"]
STUBS = []
OUTSIDE = ["containers with 3 entries before the operation (tree did not exhaust in 10 min per cell)", "pickle round trip (C-level pickle realises everything: not claimed)", "float values other than a fixed one (str(float) is C code)",
           "containers with more than 3 entries / groups with more than 3 items", "operation sequences longer than build + one operation"]
