"""C19 - field value validation matches the FIX datatype lexical spaces.

Real code executed: SchemaField.validate_value and its helpers (_validate_value_number / _str /
_datetime / _monthyear / _validate_special_cases); datetime.strptime runs through CPython's
pure-Python _strptime under the tracer.  Enumerated fields are taken from the real dictionaries
(tests/FIX44.xml, tests/TT-FIX44.xml), loaded on every run.

The value is a symbolic string; the oracle is a reference lexical predicate per datatype written
from the FIX 4.4 datatype definitions with character loops (no int()/float()/strptime):
True = must be accepted, False = must be rejected, None = the specification leaves it open.
"""
import warnings

from asyncfix.errors import FIXMessageError
from asyncfix.protocol.schema import FIXSchema, SchemaField

from vfx.run import Cell, REPO

warnings.simplefilter("ignore")

# alphabet: ASCII 0x09..0x7e (tab, space, sign, dot, underscore, letters, digits ...) plus Arabic-Indic
# digits, NBSP, fullwidth digits - the characters Python's int()/float() accept beyond FIX
EXTRA = [(0x660, 0x669), (0xA0, 0xA0), (0xFF10, 0xFF19)]
LO, HI = 0x09, 0x7E
# type-specific alphabets (lo, hi, extra ranges)
NUM_AB = (0x2B, 0x39, [(0x09, 0x09), (0x20, 0x20), (0x5F, 0x5F), (0x45, 0x45), (0x65, 0x65), (0x661, 0x662), (0xFF11, 0xFF11)])
NUM_AB_TXT = "+ , - . / 0-9 tab space _ E e, Arabic-Indic 1-2, fullwidth 1"
TIME_AB = (0x2B, 0x3A, [(0x20, 0x20), (0x77, 0x77), (0x54, 0x54), (0x661, 0x662)])
TIME_AB_TXT = "+ , - . / 0-9 : space w T, Arabic-Indic 1-2"
CODE_AB = (0x30, 0x5A, [(0x01, 0x01), (0x20, 0x20), (0x5F, 0x5F), (0x61, 0x62), (0xE9, 0xE9)])
CODE_AB_TXT = "0-9 : ; < = > ? @ A-Z, SOH space _ a b e-acute"


def _isdig(ch):
    return "0" <= ch <= "9"


def ref_int(s):
    """FIX int: optional '-', then one or more ASCII digits."""
    body = s[1:] if s[:1] == "-" else s
    if len(body) == 0:
        return False, None
    n = 0
    for ch in body:
        if not _isdig(ch):
            return False, None
        n = n * 10 + (ord(ch) - 48)
    return True, (-n if s[:1] == "-" else n)


def ref_float(s):
    """FIX float: optional '-', digits with an optional decimal point.  'ddd.' / '.ddd' are left open."""
    body = s[1:] if s[:1] == "-" else s
    if len(body) == 0:
        return False
    dots = 0
    digits_before = 0
    digits_after = 0
    for ch in body:
        if ch == ".":
            dots += 1
        elif _isdig(ch):
            if dots == 0:
                digits_before += 1
            else:
                digits_after += 1
        else:
            return False
    if dots > 1 or digits_before + digits_after == 0:
        return False
    if dots == 1 and (digits_before == 0 or digits_after == 0):
        return None
    return True


def _two(s, i):
    if _isdig(s[i]) and _isdig(s[i + 1]):
        return (ord(s[i]) - 48) * 10 + (ord(s[i + 1]) - 48)
    return None


def _ndig(s, i, n):
    v = 0
    for k in range(n):
        if not _isdig(s[i + k]):
            return None
        v = v * 10 + (ord(s[i + k]) - 48)
    return v


def _mdays(y, m):
    if m in (1, 3, 5, 7, 8, 10, 12):
        return 31
    if m in (4, 6, 9, 11):
        return 30
    leap = (y % 4 == 0 and y % 100 != 0) or y % 400 == 0
    return 29 if leap else 28


def ref_date(s):
    """YYYYMMDD with a valid calendar date (year 0000 is left open: Python has no year 0)."""
    if len(s) != 8:
        return False
    y, m, d = _ndig(s, 0, 4), _two(s, 4), _two(s, 6)
    if y is None or m is None or d is None:
        return False
    if m < 1 or m > 12 or d < 1 or d > _mdays(y, m):
        return False
    return None if y == 0 else True


def ref_time(s):
    """HH:MM:SS or HH:MM:SS.sss (other fraction lengths up to 6 digits and SS=60 are left open)."""
    if len(s) < 8:
        return False
    h, mi, se = _two(s, 0), _two(s, 3), _two(s, 6)
    if h is None or mi is None or se is None or s[2] != ":" or s[5] != ":":
        return False
    if h > 23 or mi > 59 or se > 61:
        return False
    res = True if se <= 59 else None
    if len(s) == 8:
        return res
    if s[8] != "." or len(s) == 9:
        return False
    frac = s[9:]
    for ch in frac:
        if not _isdig(ch):
            return False
    if len(frac) > 6:
        return False
    return res if len(frac) == 3 else None


def ref_timestamp(s):
    if len(s) < 17 or s[8] != "-":
        return False
    a, b = ref_date(s[:8]), ref_time(s[9:])
    if a is False or b is False:
        return False
    return True if (a is True and b is True) else None


def ref_monthyear(s):
    """YYYYMM | YYYYMMDD | YYYYMMwN (N in 1..5)."""
    if len(s) == 6:
        y, m = _ndig(s, 0, 4), _two(s, 4)
        if y is None or m is None or m < 1 or m > 12:
            return False
        return None if y == 0 else True
    if len(s) == 8 and s[6] == "w":
        head = ref_monthyear(s[:6])
        if head is False or s[7] not in "12345":
            return False
        return head
    if len(s) == 8:
        return ref_date(s)
    return False


def ref(ftype, s):
    """True: must accept, False: must reject, None: left open by the specification."""
    t = ftype.upper()
    if len(s) == 0:
        return False
    if t == "INT":
        return ref_int(s)[0]
    if t in ("SEQNUM", "NUMINGROUP"):
        ok, v = ref_int(s)
        return ok and v > 0 and s[:1] != "-"
    if t == "DAYOFMONTH":
        ok, v = ref_int(s)
        return ok and 1 <= v <= 31 and s[:1] != "-"
    if t in ("FLOAT", "QTY", "PRICE", "PRICEOFFSET", "AMT", "PERCENTAGE"):
        return ref_float(s)
    if t == "BOOLEAN":
        return s == "Y" or s == "N"
    if t == "CHAR":
        if len(s) != 1:
            return False
        return False if (s == "\x01" or s == "=") else (True if " " < s <= "~" else None)
    if t in ("COUNTRY", "CURRENCY", "EXCHANGE"):
        bound = {"COUNTRY": 2, "CURRENCY": 3, "EXCHANGE": 4}[t]
        if len(s) > bound:
            return False
        for ch in s:
            if ch == "\x01" or ch == "=":
                return False
        for ch in s:
            if not ("A" <= ch <= "Z" or _isdig(ch)):
                return None
        return True
    if t in ("LOCALMKTDATE", "UTCDATEONLY"):
        return ref_date(s)
    if t == "UTCTIMEONLY":
        return ref_time(s)
    if t == "UTCTIMESTAMP":
        return ref_timestamp(s)
    if t == "MONTHYEAR":
        return ref_monthyear(s)
    return None


def _validate(I, field, s):
    try:
        r = field.validate_value(s)
        I.check(r is True, "validate_value returned something else than True")
        return True
    except FIXMessageError:
        return False
    except Exception as e:
        I.check(False, f"rejection reported as {type(e).__name__}, not the library's message error")


def _judge(I, ftype, s, accepted):
    want = ref(ftype, s)
    if accepted:
        I.check(want is not False, f"{ftype}: value outside the FIX lexical space accepted")
        I.goal("accepted")
    else:
        I.check(want is not True, f"{ftype}: value inside the FIX lexical space rejected")
        I.goal("rejected")
    return want


def h_short(I, ftype, L, ab=(LO, HI, EXTRA), tag="9999"):
    """Every string of length 1..L over the alphabet."""
    f = SchemaField(tag, "TestField", ftype)
    s = I.str("value", 1, L, ab[0], ab[1], ab[2])
    acc = _validate(I, f, s)
    _judge(I, ftype, s, acc)
    return [acc]


def h_code(I, ftype, n):
    f = SchemaField("9999", "TestField", ftype)
    s = I.fstr("value", n, CODE_AB[0], CODE_AB[1], CODE_AB[2])
    acc = _validate(I, f, s)
    _judge(I, ftype, s, acc)
    return [acc]


def _codepoints(ab):
    pts = list(range(ab[0], ab[1] + 1))
    for (a, b) in ab[2]:
        pts += list(range(a, b + 1))
    return pts


def h_short_fixed(I, ftype, n, ab):
    """Float family: float() is C code and CrossHair can only realise its argument, so every
    character is a structural choice (one solver-enumerated value per path)."""
    f = SchemaField("9999", "TestField", ftype)
    pts = _codepoints(ab)
    s = ""
    for k in range(n):
        s = s + chr(pts[I.choice(f"char{k}", len(pts))])
    acc = _validate(I, f, s)
    _judge(I, ftype, s, acc)
    return [acc]


def h_template(I, ftype, template, nsub, kind, ab=TIME_AB):
    """A valid value of a fixed-layout type with nsub positions replaced by symbolic characters
    (kind 'sub'), or one character deleted / inserted at a symbolic position (unpadded parts)."""
    f = SchemaField("9999", "TestField", ftype)
    n = len(template)
    if kind == "sub":
        pos = []
        for k in range(nsub):
            p = I.choice(f"pos{k}", n)
            if pos:
                I.assume(p > pos[-1])
            pos.append(p)
        chars = [I.fstr(f"char{k}", 1, ab[0], ab[1], ab[2]) for k in range(nsub)]
        s = ""
        prev = 0
        for p, ch in zip(pos, chars):
            s = s + template[prev:p] + ch
            prev = p + 1
        s = s + template[prev:]
    elif kind == "del":
        p = I.choice("pos", n)
        s = template[:p] + template[p + 1:]
    else:
        p = I.choice("pos", n + 1)
        s = template[:p] + I.fstr("char", 1, ab[0], ab[1], ab[2]) + template[p:]
    acc = _validate(I, f, s)
    _judge(I, ftype, s, acc)
    return [acc]


def h_digits(I, ftype, template, spans):
    """Fixed layout with every numeric part symbolic digits (calendar / clock validity)."""
    f = SchemaField("9999", "TestField", ftype)
    s = template
    for k, (a, b) in enumerate(spans):
        part = I.fstr(f"part{k}", b - a, 48, 57)
        s = s[:a] + part + s[b:]
    acc = _validate(I, f, s)
    _judge(I, ftype, s, acc)
    return [acc]


def h_special_endseqno(I):
    """EndSeqNo (tag 16, SEQNUM) additionally accepts '0' and nothing else extra."""
    f = SchemaField("16", "EndSeqNo", "SEQNUM")
    s = I.str("value", 1, 2, NUM_AB[0], NUM_AB[1], NUM_AB[2])
    acc = _validate(I, f, s)
    if s == "0":
        I.check(acc, "EndSeqNo=0 rejected")
        I.goal("zero")
    else:
        _judge(I, "SEQNUM", s, acc)
    return [acc]


def h_enum(I, fields, L):
    """Enumerated fields accept exactly their enumerators."""
    f = fields[I.choice("field", len(fields))]
    s = I.str("value", 1, L, 0x20, 0x7E)
    acc = _validate(I, f, s)
    member = False
    for k in f.values:
        if s == k:
            member = True
    I.check(acc == member, f"enumerated field {f.name}: acceptance differs from membership in the enumeration")
    if acc:
        I.goal("accepted")
    return [f.tag, acc]


def enum_fields(path):
    return [x for x in FIXSchema(path)._tag2field.values() if x.values]


def cells(tier):
    quick = tier == "quick"
    out = []
    ab = "ASCII 0x09..0x7e + Arabic-Indic digits + NBSP + fullwidth digits"
    L = 3 if quick else 4
    for ft in ("INT", "SEQNUM", "NUMINGROUP", "DAYOFMONTH"):
        out.append(Cell(f"short/{ft}", (lambda I, ft=ft: h_short(I, ft, L)), dict(datatype=ft, value=f"every string of 1..{L} chars", alphabet=ab),
                        goals=["accepted", "rejected"], budget_s=2400))
        out.append(Cell(f"digits/{ft}", (lambda I, ft=ft: h_short(I, ft, 4, NUM_AB)),
                        dict(datatype=ft, value="every string of 1..4 chars", alphabet=NUM_AB_TXT), goals=["accepted", "rejected"], budget_s=2400))
    FL = 2 if quick else 3
    for ft in ("FLOAT", "QTY", "PRICE", "PRICEOFFSET", "AMT", "PERCENTAGE"):
        for n in range(1, FL + 1):
            out.append(Cell(f"short/{ft}/{n}", (lambda I, ft=ft, n=n: h_short_fixed(I, ft, n, NUM_AB)),
                            dict(datatype=ft, value=f"every string of exactly {n} chars", alphabet=NUM_AB_TXT),
                            goals=["accepted", "rejected"], budget_s=2400))
    for ft, l in (("BOOLEAN", 2), ("CHAR", 2)):
        out.append(Cell(f"short/{ft}", (lambda I, ft=ft, l=l: h_short(I, ft, l)), dict(datatype=ft, value=f"every string of 1..{l} chars", alphabet=ab),
                        goals=["accepted", "rejected"], budget_s=2400))
    for ft, l in (("COUNTRY", 3), ("CURRENCY", 4), ("EXCHANGE", 5)):
        for n in range(1, l + 1):
            if quick and 2 < n < l:
                continue
            out.append(Cell(f"short/{ft}/{n}", (lambda I, ft=ft, n=n: h_short(I, ft, n, CODE_AB) if n < 1 else h_code(I, ft, n)),
                            dict(datatype=ft, value=f"every string of exactly {n} chars", alphabet=CODE_AB_TXT),
                            goals=["rejected"] + (["accepted"] if n < l else []), budget_s=2400))
    out.append(Cell("special/EndSeqNo", h_special_endseqno, dict(field="EndSeqNo(16)", value="every string of 1..2 chars"), goals=["zero"]))
    layouts = {
        "UTCTIMESTAMP": ("20240229-23:59:58.123", [(0, 4), (4, 6), (6, 8), (9, 11), (12, 14), (15, 17)]),
        "UTCTIMEONLY": ("23:59:58.123", [(0, 2), (3, 5), (6, 8)]),
        "UTCDATEONLY": ("20240229", [(0, 4), (4, 6), (6, 8)]),
        "LOCALMKTDATE": ("20231130", [(0, 4), (4, 6), (6, 8)]),
        "MONTHYEAR": ("202402w3", [(0, 4), (4, 6)]),
    }
    for ft, (tpl, spans) in layouts.items():
        out.append(Cell(f"layout/{ft}/sub1", (lambda I, ft=ft, tpl=tpl: h_template(I, ft, tpl, 1, "sub")),
                        dict(datatype=ft, template=tpl, mutation="one symbolic character at every position", alphabet=TIME_AB_TXT),
                        goals=["accepted", "rejected"], regions=["c19.strptime_syntax"], budget_s=2400))
        out.append(Cell(f"layout/{ft}/del", (lambda I, ft=ft, tpl=tpl: h_template(I, ft, tpl, 1, "del")),
                        dict(datatype=ft, template=tpl, mutation="one character deleted at every position (unpadded parts)"),
                        goals=["rejected"], regions=["c19.strptime_syntax"], budget_s=2400))
        out.append(Cell(f"layout/{ft}/ins", (lambda I, ft=ft, tpl=tpl: h_template(I, ft, tpl, 1, "ins")),
                        dict(datatype=ft, template=tpl, mutation="one symbolic character inserted at every position", alphabet=TIME_AB_TXT),
                        goals=["rejected"], regions=["c19.strptime_syntax"], budget_s=2400))
        if not quick:
            out.append(Cell(f"layout/{ft}/sub2", (lambda I, ft=ft, tpl=tpl: h_template(I, ft, tpl, 2, "sub")),
                            dict(datatype=ft, template=tpl, mutation="two symbolic characters at every pair of positions", alphabet=TIME_AB_TXT),
                            goals=["accepted", "rejected"], regions=["c19.strptime_syntax"], budget_s=3000))
        for k, sp in enumerate(spans if not quick else spans[:3] if ft != "UTCTIMESTAMP" else spans[1:4]):
            out.append(Cell(f"layout/{ft}/digits{k}", (lambda I, ft=ft, tpl=tpl, sp=sp: h_digits(I, ft, tpl, [sp])),
                            dict(datatype=ft, template=tpl, part=f"positions {sp[0]}..{sp[1] - 1}: all digit strings"),
                            goals=["accepted"], regions=["c19.strptime_syntax"], budget_s=2400))
    for t7, tpl in (("MONTHYEAR", "202402"), ("MONTHYEAR", "20240229")):
        out.append(Cell(f"layout/MONTHYEAR-{len(tpl)}/sub1", (lambda I, tpl=tpl: h_template(I, "MONTHYEAR", tpl, 1, "sub")),
                        dict(datatype="MONTHYEAR", template=tpl, mutation="one symbolic character at every position", alphabet=TIME_AB_TXT),
                        goals=["accepted", "rejected"], regions=["c19.strptime_syntax"], budget_s=2400))
    from checks import c15
    for dname in c15.PATHS:
        out.append(Cell(f"through-schema/{dname}", (lambda I, dname=dname: c15.h_stateless(I, dname)),
                        dict(dictionary=dname, via="FIXSchema.validate on a fresh schema object: a first message, then a SEQNUM field with a symbolic value",
                             checks="the EndSeqNo=0 special case stays confined to tag 16; the verdict does not depend on earlier validations"),
                        goals=["judged"], budget_s=1200))
    for path in (REPO + "/tests/FIX44.xml", REPO + "/tests/TT-FIX44.xml"):
        fields = sorted(enum_fields(path), key=lambda f: int(f.tag))
        name = path.split("/")[-1]
        chunk = 12
        sel = fields[:: max(1, len(fields) // 36)] if quick else fields
        for i in range(0, len(sel), chunk):
            part = sel[i:i + chunk]
            out.append(Cell(f"enum/{name}/{i}", (lambda I, part=part: h_enum(I, part, 2)),
                            dict(dictionary=name, fields=[f"{f.name}({f.tag})" for f in part], value="every string of 1..2 printable chars"),
                            goals=["accepted"], budget_s=2400))
    return out


ASSUMPTIONS = ["reference lexical spaces per FIX 4.4 Volume 1 'FIX Data types'; where the specification leaves a form open ('5.', '.5', SS=60, fraction lengths other than 3, year 0000, non-alphanumeric code characters) either outcome is accepted",
               "datetime.strptime is executed through CPython's pure-Python _strptime (the C entry point rejects symbolic strings)"]
STUBS = ["datetime.strptime -> _strptime._strptime_datetime (same algorithm, Python level)"]
OUTSIDE = ["number strings longer than the stated length", "code points outside the stated alphabet", "STRING / DATA / LENGTH / MULTIPLEVALUESTRING free text",
           "enumerator strings longer than 2 characters are only checked for membership of short strings"]
