"""C20 - the bundled test helper fabricates valid, consistent counterparty traffic.

Real code executed: FIXTester.fix_exec_report_msg / fix_cxlrep_reject_msg / fix_cxl_request /
fix_rep_request / msg_logon / msg_heartbeat / msg_test_request / msg_sequence_reset /
msg_resend_request / reply / process_msg_acceptor and its socket wiring; FIXSchema.validate;
FIXNewOrderSingle.process_execution_report / process_cancel_rej_report; for the fidelity cells two
real AsyncFIXConnection endpoints over in-memory pipes.

(a) fabrication: order state reached by a solver-chosen prefix, every (ExecType, OrdStatus) pair,
    quantities / price / ClOrdID choice symbolic; argument combinations the helper itself refuses
    (its assertions, or its own schema validation) are not 'accepted' and are skipped.
(b) fidelity: the same clean script run against the helper's simulated acceptor and against a real
    acceptor endpoint; the initiator must see the same frames (modulo nothing: the clock is
    stubbed), states and counters.
"""
import warnings
from math import nan

from asyncfix import FIXMessage, FMsg, FTag
from asyncfix.connection import ConnectionRole, ConnectionState
from asyncfix.errors import FIXError, FIXMessageError
from asyncfix.fix_tester import FIXTester
from asyncfix.protocol.common import FExecType, FOrdStatus
from asyncfix.protocol.order_single import FIXNewOrderSingle
from asyncfix.protocol.schema import FIXSchema

from checks.dictmodel import Dict
from vfx.env import PROTO, Conn, FakeDB, Writer, frame_fields, install_loop, run
from vfx.run import Cell, REPO

warnings.simplefilter("ignore")
CS = ConnectionState
_S = {}
FINISHED = ("2", "4", "8", "C")
EXEC_TYPES = list(FExecType)
STATUSES = list(FOrdStatus)


def schema(I=None):
    import copy
    if "s" not in _S:
        _S["s"] = FIXSchema(REPO + "/tests/FIX44.xml")
        _S["d"] = Dict(REPO + "/tests/FIX44.xml")
    return _S["s"], _S["d"]


def required_tags(D, msgtype):
    return [m[2] for m in D.messages[msgtype][1] if m[4]]


def accepted(I, fn):
    """Call a helper factory: returns its message, or None if the helper refused the arguments."""
    try:
        return fn()
    except AssertionError:
        I.goal("refused-by-helper")
        return None
    except FIXMessageError:
        I.goal("refused-by-helper")
        return None
    except Exception as e:
        I.check(False, f"helper raised {type(e).__name__}: {str(e)[:80]}")


def order_in_state(I, ft, prefix):
    """An order object brought to a state by a prefix of helper-fabricated reports."""
    o = FIXNewOrderSingle("root", "TICK", "1", 100.0, 10)
    ft.order_register_single(o)
    steps = [
        lambda: None,
        lambda: o.new_req(),
        lambda: o.process_execution_report(ft.fix_exec_report_msg(o, o.clord_id, FExecType.PENDING_NEW, FOrdStatus.PENDING_NEW)),
        lambda: o.process_execution_report(ft.fix_exec_report_msg(o, o.clord_id, FExecType.NEW, FOrdStatus.NEW, cum_qty=0, leaves_qty=10)),
        lambda: o.process_execution_report(ft.fix_exec_report_msg(o, o.clord_id, FExecType.TRADE, FOrdStatus.PARTIALLY_FILLED, cum_qty=3, leaves_qty=7, last_qty=3)),
        lambda: ft.fix_cxl_request(o),
    ]
    for k in range(prefix + 1):
        steps[k]()
        if k == 1:
            ft.order_register_single(o)
    return o


def h_exec_report(I, prefix, exec_idx):
    """All arguments are solver-chosen structural values; once they are fixed nothing symbolic is
    left, so the body runs outside the tracer (the helper's MagicMock wiring is slow under it)."""
    st_i = I.choice("ord_status", len(STATUSES))
    c_i, l_i, la_i, oq_i, px_i = (I.choice("cum_qty", 5), I.choice("leaves_qty", 4), I.choice("last_qty", 2),
                                  I.choice("order_qty", 3), I.choice("price", 2))
    orig = I.bool("report_under_orig_clord_id")
    return I.untraced(lambda: _exec_report_body(I, prefix, exec_idx, st_i, c_i, l_i, la_i, oq_i, px_i, bool(orig)))


def _exec_report_body(I, prefix, exec_idx, st_i, c_i, l_i, la_i, oq_i, px_i, orig):
    S, D = schema(I)
    ft = FIXTester(schema=S)
    o = order_in_state(I, ft, prefix)
    et = EXEC_TYPES[exec_idx]
    st = STATUSES[st_i]
    Q = (nan, 0, 3, 10, 12)
    cum = Q[c_i]
    LQ = (nan, 0, 7, 10)
    leaves = LQ[l_i]
    last = (nan, 3)[la_i]
    oq = (nan, 12, 8)[oq_i]
    px = (nan, 101.5)[px_i]
    use_orig = orig and o.orig_clord_id is not None
    clord = o.orig_clord_id if use_orig else o.clord_id
    before = (o.order_id, )
    m1 = accepted(I, lambda: ft.fix_exec_report_msg(o, clord, et, st, cum_qty=cum, leaves_qty=leaves, last_qty=last, price=px,
                                                     order_qty=oq, orig_clord_id=o.orig_clord_id))
    if m1 is None:
        return ["refused"]
    I.goal("fabricated")
    # validates against the dictionary (independent schema object and independent required-tag list)
    S2, _ = schema(I)
    try:
        S2.validate(m1)
    except FIXMessageError as e:
        I.check(False, f"fabricated execution report does not validate: {str(e)[:100]}")
    for t in required_tags(D, "8"):
        I.check(t in m1, f"fabricated execution report lacks required tag {t}")
    cumv, leavesv, qtyv = float(m1[FTag.CumQty]), float(m1[FTag.LeavesQty]), float(m1[FTag.OrderQty])
    I.check(cumv + leavesv <= qtyv, "CumQty + LeavesQty above OrderQty")
    if st.value in FINISHED:
        I.check(leavesv == 0, "finished status with LeavesQty != 0")
    I.check(m1[FTag.ClOrdID] == clord and m1[FTag.ExecType] == et.value and m1[FTag.OrdStatus] == st.value, "arguments not carried into the report")
    # fresh ExecID, stable OrderID
    m2 = accepted(I, lambda: ft.fix_exec_report_msg(o, clord, et, st, cum_qty=cum, leaves_qty=leaves, last_qty=last, price=px,
                                                     order_qty=oq, orig_clord_id=o.orig_clord_id))
    I.check(m2 is not None, "identical arguments refused the second time")
    I.check(m2[FTag.ExecID] != m1[FTag.ExecID], "ExecID reused")
    try:
        o.process_execution_report(m1)
    except Exception as e:
        I.check(False, f"order object failed on a fabricated report: {type(e).__name__}: {str(e)[:80]}")
    I.check(isinstance(o.status, FOrdStatus), "order status not an enum member after a fabricated report")
    m3 = accepted(I, lambda: ft.fix_exec_report_msg(o, o.clord_id, FExecType.ORDER_STATUS, o.status))
    if m3 is not None:
        I.check(m3[FTag.OrderID] == m1[FTag.OrderID], "OrderID not stable for one order")
    return [str(o.status), m1[FTag.ExecID]]


def h_reject(I):
    S, D = schema(I)
    ft = FIXTester(schema=S)
    o = order_in_state(I, ft, 3 + I.choice("filled", 2))
    kind = I.choice("request", 2)
    m0 = accepted(I, lambda: ft.fix_exec_report_msg(o, o.clord_id, FExecType.ORDER_STATUS, o.status))
    I.check(m0 is not None, "helper refused a status report for a live order")
    req = accepted(I, (lambda: ft.fix_cxl_request(o)) if kind == 0 else (lambda: ft.fix_rep_request(o, 101.0, 12)))
    I.check(req is not None, "helper refused a request for a live order")
    st = STATUSES[I.choice("ord_status", len(STATUSES))]
    m = accepted(I, lambda: ft.fix_cxlrep_reject_msg(req, st))
    if m is None:
        return ["refused"]
    I.goal("fabricated")
    S2, _ = schema(I)
    try:
        S2.validate(m)
    except FIXMessageError as e:
        I.check(False, f"fabricated cancel reject does not validate: {str(e)[:100]}")
    for t in required_tags(D, "9"):
        I.check(t in m, f"fabricated cancel reject lacks required tag {t}")
    I.check(m[FTag.ClOrdID] == req[FTag.ClOrdID] and m[FTag.OrigClOrdID] == req[FTag.OrigClOrdID], "reject does not refer to the request")
    I.check(m[FTag.CxlRejResponseTo] == ("1" if kind == 0 else "2"), "CxlRejResponseTo does not match the request kind")
    try:
        o.process_cancel_rej_report(m)
    except Exception as e:
        I.check(False, f"order object failed on a fabricated cancel reject: {type(e).__name__}")
    I.check(isinstance(o.status, FOrdStatus), "order status not an enum member after a fabricated reject")
    # stable OrderID per order: the reject names the order by the OrderID of its execution reports,
    # and the reports fabricated after the reject still carry it
    I.check(m[FTag.OrderID] == m0[FTag.OrderID], "cancel reject names the order by a different OrderID than its execution reports")
    m3 = accepted(I, lambda: ft.fix_exec_report_msg(o, o.clord_id, FExecType.ORDER_STATUS, o.status))
    if m3 is not None:
        I.check(m3[FTag.OrderID] == m0[FTag.OrderID], "OrderID of the order changed after a cancel reject")
        I.goal("report-after-reject")
    return [str(o.status)]


def h_session_msgs(I):
    S, D = schema(I)
    ft = FIXTester(schema=S)
    which = I.choice("factory", 5)
    n1, n2 = I.int("number1", -2, 1200), I.int("number2", -2, 1200)
    if which == 0:
        m = accepted(I, lambda: ft.msg_logon({FTag.HeartBtInt: n1} if I.bool("with_tags") else None))
        typ = "A"
    elif which == 1:
        m = accepted(I, lambda: ft.msg_heartbeat(n1 if I.bool("with_id") else None))
        typ = "0"
    elif which == 2:
        m = accepted(I, lambda: ft.msg_test_request(n1))
        typ = "1"
    elif which == 3:
        m = accepted(I, lambda: ft.msg_sequence_reset(n1, n2, I.bool("gap_fill")))
        typ = "4"
    else:
        m = accepted(I, lambda: ft.msg_resend_request(n1, n2))
        typ = "2"
    if m is None:
        return ["refused"]
    I.goal("fabricated")
    S2, _ = schema(I)
    try:
        S2.validate(m)
    except FIXMessageError as e:
        I.check(False, f"fabricated session message does not validate: {str(e)[:100]}")
    I.check(m.msg_type == typ, "wrong message type")
    for t in required_tags(D, typ):
        I.check(t in m, f"fabricated session message lacks required tag {t}")
    return [typ]


# --------------------------------------------------------------------------- (b) fidelity
class Pair:
    """Initiator + real acceptor endpoint over in-memory pipes (frames decoded by the real codec)."""

    def __init__(self, init, acc):
        self.init, self.acc = init, acc

    def pump(self):
        for _ in range(20):
            moved = False
            for src, dst in ((self.init, self.acc), (self.acc, self.init)):
                w = src._socket_writer
                if w is None:
                    continue
                while getattr(w, "taken", 0) < len(w.frames):
                    f = w.frames[w.taken]
                    w.taken += 1
                    msg, _, raw = dst._codec.decode(f, silent=False)
                    run(dst._process_message(msg, raw))
                    moved = True
            if not moved:
                return


def mk_initiator(nin, nout):
    db = FakeDB()
    c = Conn(db.journaler("init.db"), "I", "A")
    c._journaler.set_seq_num(c._session, next_num_out=nout, next_num_in=nin)
    c._connection_state = CS.NETWORK_CONN_ESTABLISHED
    c._connection_role = ConnectionRole.INITIATOR
    c._socket_writer = Writer()
    c._socket_writer.taken = 0
    c._socket_reader = object()
    return c


def observe_initiator(c, frames):
    return dict(frames=[bytes(f) for f in frames], state=int(c._connection_state), nin=c._session.next_num_in,
                nout=c._session.next_num_out, app=[m.get(11, None) for m in c.app],
                events=[e for e in c.events if e[0] != "frame"])


def h_fidelity(I, nsteps):
    C = (1, 2, 9, 10, 99, 100)
    nin, nout = C[I.choice("initiator_next_in", len(C))], C[I.choice("initiator_next_out", len(C))]
    script = [I.choice(f"step{k}", 4) for k in range(nsteps)]
    return I.untraced(lambda: _fidelity_body(I, nin, nout, script))


def _fidelity_body(I, nin, nout, script):
    install_loop()
    # ---- run against the helper's simulated acceptor
    a = mk_initiator(nin, nout)
    ft = FIXTester(schema=None, connection=a)
    sent_a = []
    orig_write = a._socket_writer.write.side_effect

    def tap(data):
        sent_a.append(data)
        return orig_write(data)
    a._socket_writer.write.side_effect = tap
    run(a.send_msg(ft.msg_logon()))
    run(ft.process_msg_acceptor())
    for k, st in enumerate(script):
        if a._connection_state != CS.ACTIVE:
            break
        if st == 0:
            run(a.send_msg(FIXMessage("D", {11: "c%d" % k, 55: "S"})))
            run(ft.process_msg_acceptor())
        elif st == 1:
            run(ft.reply(FIXMessage("8", {11: "e%d" % k, 37: "o"})))
        elif st == 2:
            run(ft.reply(ft.msg_test_request("T%d" % k)))
            if ft.acceptor_rcv_que:
                run(ft.process_msg_acceptor())
        else:
            run(a.send_msg(FIXMessage(FMsg.HEARTBEAT)))
            run(ft.process_msg_acceptor())
    obs_a = observe_initiator(a, sent_a)
    acc_a = (int(ft.conn_accept._connection_state), ft.conn_accept._session.next_num_in, ft.conn_accept._session.next_num_out)
    # ---- run against a real acceptor endpoint
    b = mk_initiator(nin, nout)
    dbb = FakeDB()
    r = Conn(dbb.journaler("acc.db"), "A", "I")
    r._journaler.set_seq_num(r._session, next_num_out=nin, next_num_in=nout)
    r._connection_state = CS.NETWORK_CONN_ESTABLISHED
    r._socket_writer = Writer()
    r._socket_writer.taken = 0
    r._socket_reader = object()
    p = Pair(b, r)
    run(b.send_msg(FIXMessage(FMsg.LOGON, {98: 0, 108: 30})))
    p.pump()
    for k, st in enumerate(script):
        if b._connection_state != CS.ACTIVE:
            break
        if st == 0:
            run(b.send_msg(FIXMessage("D", {11: "c%d" % k, 55: "S"})))
        elif st == 1:
            run(r.send_msg(FIXMessage("8", {11: "e%d" % k, 37: "o"})))
        elif st == 2:
            r._test_req_id = 1
            run(r.send_msg(FIXMessage(FMsg.TESTREQUEST, {112: "T%d" % k})))
            r._test_req_id = None
        else:
            run(b.send_msg(FIXMessage(FMsg.HEARTBEAT)))
        p.pump()
    obs_b = observe_initiator(b, b._socket_writer.frames)
    acc_b = (int(r._connection_state), r._session.next_num_in, r._session.next_num_out)
    I.check(obs_a["frames"] == obs_b["frames"], "initiator sent different frames to the helper's acceptor and to a real acceptor")
    I.check(obs_a["state"] == obs_b["state"], "initiator state differs between the helper and a real acceptor")
    I.check((obs_a["nin"], obs_a["nout"]) == (obs_b["nin"], obs_b["nout"]), "initiator counters differ between the helper and a real acceptor")
    I.check(obs_a["app"] == obs_b["app"] and obs_a["events"] == obs_b["events"], "initiator callbacks differ between the helper and a real acceptor")
    I.check(acc_a == acc_b, "simulated acceptor state / counters differ from a real acceptor's")
    if obs_a["state"] == int(CS.ACTIVE):
        I.goal("clean-session")
    return [obs_a["state"], obs_a["nin"], obs_a["nout"], len(obs_a["frames"])]


def cells(tier):
    quick = tier == "quick"
    out = []
    schema()  # parse the dictionary once, outside the tracer
    for prefix in ((3, 4, 5) if quick else (1, 2, 3, 4, 5)):
        for ei in range(len(EXEC_TYPES)):
            if quick and ei % 3 != prefix % 3:
                continue
            out.append(Cell(f"exec-report/state{prefix}/{EXEC_TYPES[ei].name}", (lambda I, p=prefix, ei=ei: h_exec_report(I, p, ei)),
                            dict(order_state=["created", "pending-new sent", "pending-new", "new", "partially filled", "cancel requested"][prefix],
                                 exec_type=EXEC_TYPES[ei].name, ord_status="every member (symbolic)", cum_qty="nan/0/3/10/12", leaves_qty="nan/0/7/10",
                                 last_qty="nan/3", order_qty="nan/12/8", price="nan/101.5", clord_id="current / original"),
                            goals=["refused-by-helper"], budget_s=2400))
    out.append(Cell("cancel-reject", h_reject, dict(order="new / partially filled", request="cancel / replace", ord_status="every member (symbolic)"), goals=["fabricated", "report-after-reject"]))
    out.append(Cell("session-messages", h_session_msgs, dict(factories=["msg_logon", "msg_heartbeat", "msg_test_request", "msg_sequence_reset", "msg_resend_request"],
                                                            numbers="symbolic in [-2,1200]"), goals=["fabricated"]))
    for n in ((2,) if quick else (2, 3, 4)):
        out.append(Cell(f"fidelity/{n}", (lambda I, n=n: h_fidelity(I, n)),
                        dict(script=f"logon + {n} steps, each: initiator application send / acceptor application send / acceptor TestRequest / initiator Heartbeat (symbolic)",
                             counters="initiator next-in / next-out each from {1,2,9,10,99,100} (the acceptor mirrors them: clean session)"),
                        goals=["clean-session"], budget_s=2400))
    return out


ASSUMPTIONS = ["'accepted by the helper' = the factory returns without tripping its own assertions or its own schema validation (FIXTester is built with the FIX44 schema, as the repo's tests do)",
               "execution reports are fabricated under the order's current or original ClOrdID (a report under a foreign ClOrdID is refused by the order object by design)",
               "quantities / prices come from small fixed sets (float rendering is C code), every combination explored",
               "fidelity: clean scripts only (sequence faults are C04 / C06's subject); the clock is stubbed so SendingTime is equal on both sides"]
STUBS = ["clock fixed", "sqlite3 -> FakeSQLite for the connections built by the harness (FIXTester creates its own in-memory Journaler on FakeSQLite as well)", "transport -> recording Writer / the helper's own mocks"]
OUTSIDE = ["float quantities beyond the fixed set", "scripts longer than 4 steps", "scripts with sequence faults"]
