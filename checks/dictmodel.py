"""Independent reading of a FIX XML dictionary (reference for C15 / C20), written against the
QuickFIX dictionary format - it shares no code with asyncfix.protocol.schema."""
import xml.etree.ElementTree as ET

SAMPLE = {
    "INT": "7", "LENGTH": "3", "SEQNUM": "5", "NUMINGROUP": "1", "DAYOFMONTH": "15", "FLOAT": "1.5", "QTY": "10", "PRICE": "100.5",
    "PRICEOFFSET": "0.5", "AMT": "12.25", "PERCENTAGE": "0.1", "CHAR": "a", "BOOLEAN": "Y", "STRING": "txt", "MULTIPLEVALUESTRING": "A",
    "MULTIPLESTRINGVALUE": "A", "CURRENCY": "USD", "EXCHANGE": "XNYS", "COUNTRY": "US", "UTCTIMESTAMP": "20240102-03:04:05",
    "UTCTIMEONLY": "03:04:05", "UTCDATEONLY": "20240102", "LOCALMKTDATE": "20240102", "MONTHYEAR": "202401", "DATA": "raw",
}


class Dict:
    def __init__(self, path):
        root = ET.parse(path).getroot()
        self.path = path
        self.fields = {}  # name -> (tag, type, [enum values])
        self.by_tag = {}
        for f in root.find("fields"):
            enum = [v.attrib["enum"] for v in f]
            self.fields[f.attrib["name"]] = (f.attrib["number"], f.attrib["type"], enum)
            self.by_tag[f.attrib["number"]] = f.attrib["name"]
        comps = root.find("components")
        self.components = {c.attrib["name"]: c for c in (comps if comps is not None else [])}
        self.header = self._members(root.find("header"), True)
        self.messages = {}  # msgtype -> (name, members)
        for m in root.find("messages"):
            self.messages[m.attrib["msgtype"]] = (m.attrib["name"], self._members(m, True))

    def _members(self, el, req_chain):
        """Flattened ordered members: ('field', name, tag, required, directly_required) or
        ('group', name, tag, required, directly_required, [members])."""
        out = []
        for c in el:
            req = c.attrib.get("required", "N").upper() == "Y"
            if c.tag == "field":
                out.append(("field", c.attrib["name"], self.fields[c.attrib["name"]][0], req, req and req_chain))
            elif c.tag == "component":
                out += self._members(self.components[c.attrib["name"]], req_chain and req)
            elif c.tag == "group":
                out.append(("group", c.attrib["name"], self.fields[c.attrib["name"]][0], req, req and req_chain,
                            self._members(c, True)))
        return out

    def value_for(self, name, alt=0):
        tag, typ, enum = self.fields[name]
        if enum:
            return enum[alt % len(enum)]
        return SAMPLE.get(typ.upper(), "x")

    def group_item(self, members, full=False):
        """One valid group item: first member, required members (and all members if full)."""
        item = {}
        for i, m in enumerate(members):
            if i == 0 or m[3] or full:
                if m[0] == "field":
                    item[m[2]] = self.value_for(m[1])
                else:
                    item[m[2]] = [self.group_item(m[5], full)]
        return item

    def instance(self, msgtype, optional=3):
        """A valid message body as an ordered list of (tag, value | [items]) built from the
        dictionary: every member flagged required, plus the first `optional` optional plain fields
        and the first optional group."""
        name, members = self.messages[msgtype]
        out = []
        nopt = 0
        optgroup = False
        for m in members:
            take = m[3]
            if not take and m[0] == "field" and nopt < optional:
                take = True
                nopt += 1
            if not take and m[0] == "group" and not optgroup:
                take = True
                optgroup = True
            if take:
                if m[0] == "field":
                    out.append((m[2], self.value_for(m[1]), m))
                else:
                    out.append((m[2], [self.group_item(m[5])], m))
        return out

    def allowed_tags(self, msgtype):
        return {m[2] for m in self.messages[msgtype][1]}
