"""Reference model of the journal (used by C13, C08): a map (session, direction, seqno) -> bytes
plus two counters per session, written from the property statement, not from journaler.py."""
from asyncfix.errors import DuplicateSeqNoError
from asyncfix.message import MessageDirection

IN, OUT = MessageDirection.INBOUND, MessageDirection.OUTBOUND
DIRS = (IN, OUT)
SESS = (("T", "S"), ("S", "T"), ("T2", "S"))  # (target, sender): a pair, its mirror image, a third


def msg_bytes(seq, tag):
    """A stored message: only 34=<seq> is read back by the journal; `tag` makes rows distinct."""
    return b"8=FIX.4.4\x019=20\x0135=D\x0134=" + str(seq).encode() + b"\x0158=" + tag.encode() + b"\x0110=000\x01"


class Ref:
    def __init__(self):
        self.rows = []  # insertion order: (sess_idx, dir, seq, bytes)
        self.next_in = {}
        self.next_out = {}

    def copy(self):
        r = Ref()
        r.rows = list(self.rows)
        r.next_in = dict(self.next_in)
        r.next_out = dict(self.next_out)
        return r

    def load(self, si):
        if si not in self.next_in:
            self.next_in[si] = 1
            self.next_out[si] = 1
        return self.next_in[si], self.next_out[si]

    def has(self, si, d, seq):
        for (s, dd, q, m) in self.rows:
            if s == si and dd is d and q == seq:
                return True
        return False

    def persist(self, si, d, seq, m):
        if self.has(si, d, seq):
            return False
        self.rows.append((si, d, seq, m))
        if d is OUT:
            self.next_out[si] = seq + 1
        else:
            self.next_in[si] = seq + 1
        return True

    def replace(self, si, d, seq, m):
        """A retransmission journaled under a number already used: takes the row's place (as the
        newest row); the counters are not touched."""
        self.rows = [(s, dd, q, mm) for (s, dd, q, mm) in self.rows if not (s == si and dd is d and q == seq)]
        self.rows.append((si, d, seq, m))

    def query(self, si, d, lo, hi):
        sel = [(q, m) for (s, dd, q, m) in self.rows if s == si and dd is d and lo <= q and q <= hi]
        out = []
        for q, m in sel:  # insertion sort by number (plain comparisons: symbolic-friendly)
            k = len(out)
            while k > 0 and out[k - 1][0] > q:
                k -= 1
            out.insert(k, (q, m))
        return [m for (q, m) in out]

    def set_seq(self, si, nout, nin):
        if nout is not None:
            self.next_out[si] = nout
        if nin is not None:
            self.next_in[si] = nin
        no, ni = self.next_out[si], self.next_in[si]
        self.rows = [(s, d, q, m) for (s, d, q, m) in self.rows
                     if not (s == si and ((d is OUT and q >= no) or (d is IN and q >= ni)))]

    def all_rows(self, sis=None, d=None):
        return [(q, m, dd.value, s) for (s, dd, q, m) in self.rows
                if (sis is None or s in sis) and (d is None or dd is d)]


def observe(j, keys):
    """Everything observable through the public Journaler API, for the loaded sessions.

    keys: {sess_idx: session key}.  Returns a comparable structure (session keys mapped back
    to indices)."""
    inv = {k: si for si, k in keys.items()}
    obs = {"counters": {}, "listing": {}, "rows": {}, "all": None}
    listing = j.sessions()
    for si in sorted(keys):
        t, s = SESS[si]
        sess = j.create_or_load(t, s)
        obs["counters"][si] = (sess.next_num_in, sess.next_num_out, sess.key == keys[si])
        ls = listing.get((t, s))
        obs["listing"][si] = None if ls is None else (ls.next_num_in, ls.next_num_out, ls.key == keys[si])
        for d in DIRS:
            obs["rows"][(si, d.value)] = j.recover_messages(sess, d, -10**9, 10**9)
    obs["nsessions"] = len(listing)
    obs["all"] = [(q, m, d, inv.get(k, "?")) for (q, m, d, k) in j.get_all_msgs()]
    return obs


def expect(ref, keys):
    obs = {"counters": {}, "listing": {}, "rows": {}, "all": None}
    for si in sorted(keys):
        ni, no = ref.load(si)
        obs["counters"][si] = (ni, no, True)
        obs["listing"][si] = (ni, no, True)
        for d in DIRS:
            obs["rows"][(si, d.value)] = ref.query(si, d, -10**9, 10**9)
    obs["nsessions"] = len(keys)
    obs["all"] = ref.all_rows()
    return obs


def compare(I, j, ref, keys, when):
    got, exp = observe(j, keys), expect(ref, keys)
    I.check(got["nsessions"] == exp["nsessions"], f"{when}: sessions() lists a different number of sessions")
    for si in sorted(keys):
        I.check(got["counters"][si] == exp["counters"][si],
                f"{when}: create_or_load reports other counters than the model for session {si}")
        I.check(got["listing"][si] == exp["listing"][si],
                f"{when}: sessions() disagrees with create_or_load / the model for session {si}")
        for d in DIRS:
            I.check(got["rows"][(si, d.value)] == exp["rows"][(si, d.value)],
                    f"{when}: stored messages of session {si} direction {d.name} differ from the model")
    I.check(got["all"] == exp["all"], f"{when}: get_all_msgs differs from the model (content or insertion order)")
