"""Shared pieces of the session-layer harnesses (C04, C05, C06, C09, C11, C12, C02 histories)."""
from asyncfix import FMsg
from asyncfix.connection import ConnectionRole, ConnectionState

from vfx.env import FIXED_TIME, frame_fields, inbound, mkconn, raw_for, ref_frame, run

CS = ConnectionState
LOGGED_ON = (CS.ACTIVE, CS.RESENDREQ_AWAITING, CS.RESENDREQ_HANDLING, CS.RECV_SEQNUM_TOO_HIGH)
ROLES = (ConnectionRole.INITIATOR, ConnectionRole.ACCEPTOR)
KINDS = ("app", "heartbeat", "testrequest", "resendrequest", "gapfill", "reset")
TYPE_OF = {"app": "8", "heartbeat": "0", "testrequest": "1", "resendrequest": "2", "gapfill": "4",
           "reset": "4", "logon": "A", "logout": "5"}


def build_inbound(I, kind, seq, k="", nout=None, digits=3, sender="T", target="S"):
    """(decoded message, raw bytes, parameters) of one inbound message of the given kind."""
    extra, par = {}, {}
    if kind == "app":
        extra = {11: "cl1", 37: "o1"}
    elif kind == "testrequest":
        extra = {112: "TR1"}
    elif kind == "resendrequest":
        par["begin"] = I.int(f"begin{k}", 1, 10**digits - 1)
        if nout is not None:
            I.assume(par["begin"] < nout)  # ranges beyond what was sent are C06's subject
        extra = {7: par["begin"], 16: 0}
    elif kind in ("gapfill", "reset"):
        par["new"] = I.int(f"new_seq{k}", 1, 10**digits + 5)
        extra = {36: par["new"]}
        if kind == "gapfill":
            extra = {123: "Y", 36: par["new"]}
        elif I.bool(f"gapfillflag_N{k}"):
            extra = {123: "N", 36: par["new"]}
    elif kind == "logon":
        extra = {98: 0, 108: 30}
    if kind != "logon" and I.bool(f"possdup{k}"):
        extra[43] = "Y"
        extra[122] = FIXED_TIME
        par["possdup"] = True
    mt = TYPE_OF[kind]
    return inbound(mt, seq, extra, sender, target), raw_for(mt, seq), par


def frames_of(c):
    """[(fields dict, raw)] of every frame written, each checked by the reference framer."""
    out = []
    for f in c._socket_writer.frames if c._socket_writer is not None else []:
        out.append((frame_fields(f), f))
    return out


def wire_summary(frames):
    """Compact description of written frames for the observation digest."""
    out = []
    for f in frames:
        d = frame_fields(f)
        out.append([d.get("35"), d.get("34"), d.get("7"), d.get("16"), d.get("36"), d.get("43"), d.get("112")])
    return out


def check_frames_wellformed(I, frames):
    for f in frames:
        why = ref_frame(f)
        I.check(why is None, f"frame written by the connection is not well-formed: {why}")
