#!/bin/sh
# Build the tooling environment offline: overlay venv on /venv (repo deps) + crosshair-tool from
# the local wheelhouse.  Idempotent; safe under concurrent invocation (lock directory).
set -e
cd "$(dirname "$0")"
V=.venv
if [ -x $V/bin/python ] && $V/bin/python -c "import crosshair, z3, asyncfix" 2>/dev/null; then
  exit 0
fi
while ! mkdir .venv.lock 2>/dev/null; do
  sleep 1
  if [ -x $V/bin/python ] && $V/bin/python -c "import crosshair, z3, asyncfix" 2>/dev/null; then exit 0; fi
done
trap 'rmdir .venv.lock 2>/dev/null || true' EXIT
if ! { [ -x $V/bin/python ] && $V/bin/python -c "import crosshair, z3, asyncfix" 2>/dev/null; }; then
  rm -rf $V
  /venv/bin/python -m venv $V
  PIP_NO_INDEX=1 $V/bin/pip install -q --no-index --find-links /opt/veriftools/wheels crosshair-tool
  SP=$($V/bin/python -c "import site;print(site.getsitepackages()[0])")
  printf '/venv/lib/python3.12/site-packages\n/repo\n' > "$SP/verif_overlay.pth"
  $V/bin/python -c "import crosshair, z3, asyncfix"
fi
