#!/usr/bin/env python3
"""tools/cellprobe.py <PROP> <tier> <per-cell budget s> [pattern]: run every cell with a small budget, print a table."""
import sys, os, json, concurrent.futures as cf, multiprocessing as mp
sys.path.insert(0, os.path.dirname(os.path.dirname(os.path.abspath(__file__))))
def one(args):
    prop, tier, name, budget = args
    from vfx import run, sx
    cell = run._find_cell(prop, tier, name)
    known = [e["region"] for e in run.load_known(prop) if e["status"] == "known" and e["region"] in cell.regions]
    st = sx.explore(cell.fn, known=known, budget_s=budget, per_path_s=cell.per_path_s)
    return name, st["paths"], st["exhausted"], st["wall_s"], st["unknown"], (st["cex"][1] if st["cex"] else None), (st["error"] or "")[-int(os.environ.get("ERRLEN","300")):]
if __name__ == "__main__":
    prop, tier, budget = sys.argv[1].upper(), sys.argv[2], float(sys.argv[3])
    pat = sys.argv[4] if len(sys.argv) > 4 else ""
    from vfx import run
    names = [c.name for c in run._module(prop).cells(tier) if pat in c.name]
    with cf.ProcessPoolExecutor(16, mp_context=mp.get_context("spawn")) as ex:
        for r in ex.map(one, [(prop, tier, n, budget) for n in names]):
            print(*r)
