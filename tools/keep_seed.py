#!/usr/bin/env python3
"""tools/keep_seed.py <PROP> <name> <worktree> "<needs>" "<caught by>" : store a confirmed seeded change."""
import json, os, shutil, subprocess, sys
prop, name, wt, needs, caught = sys.argv[1:6]
d = os.path.join("/verif/seeded", f"{prop}-{name}")
os.makedirs(d, exist_ok=True)
shutil.copy(os.path.join(wt, "patch.diff"), os.path.join(d, "patch.diff"))
demo = [f for f in os.listdir(wt) if f.startswith("demo_") and f.endswith(".py")][0]
shutil.copy(os.path.join(wt, demo), os.path.join(d, demo))
def run(cmd, cwd):
    r = subprocess.run(cmd, shell=True, cwd=cwd, capture_output=True, text=True)
    return r.returncode, (r.stdout + r.stderr)[-400:]
# confirm: tests pass with the change, demo fails with it and passes without it
subprocess.run("git checkout -q -- asyncfix && git apply patch.diff", shell=True, cwd=wt, check=True)
t_rc, t_out = run("/venv/bin/python -m pytest -q -p no:cacheprovider 2>&1 | tail -1", wt)
d_rc, d_out = run(f"PYTHONPATH={wt} /venv/bin/python {demo}", wt)
subprocess.run("git checkout -q -- asyncfix", shell=True, cwd=wt, check=True)
o_rc, o_out = run(f"PYTHONPATH={wt} /venv/bin/python {demo}", wt)
subprocess.run("git apply patch.diff", shell=True, cwd=wt, check=True)
base = subprocess.check_output("git rev-parse --short HEAD", shell=True, cwd=wt, text=True).strip()
meta = dict(property=prop, name=name, base_commit=base, needs=needs, detected_by=caught,
            confirmed=dict(test_suite_with_change=t_out.strip(), demo_with_change_exit=d_rc, demo_without_change_exit=o_rc,
                           demo_with_change_tail=d_out.strip()[-300:]),
            how_checked=f"git -C /repo apply seeded/{prop}-{name}/patch.diff; ./vf check {prop} --tier quick; git -C /repo checkout -- .")
json.dump(meta, open(os.path.join(d, "meta.json"), "w"), indent=1)
print(json.dumps(meta["confirmed"], indent=1))
