#!/usr/bin/env python3
"""Regenerates MANIFEST.json from the table below (run from /verif)."""
import json, os
ROOT = os.path.dirname(os.path.dirname(os.path.abspath(__file__)))
TECH = "bounded symbolic execution of the real Python code (CrossHair as a library), every branch decided by z3; counterexamples and one witness per path replayed concretely"
NOTE = ("Trusted: z3 5.1, CrossHair 0.0.110 proxy semantics, the model extensions in vfx/chx.py, the stubs "
        "listed in the evidence file (coverage.stubs) and the reference oracle in the check module. "
        "Holds only within the bounds printed in coverage.cells[*].bounds.")
CHECKS = {
    "C01": ("2 (C01)", "Codec.encode -> Codec.decode on messages whose field values, tags, counters and CompIDs are solver variables; one cell per "
                  "repeating group of the live protocol table and item shape, per encoding mode; each cell's path tree is exhausted, "
                  "so the round trip holds for every value within the stated length/digit bounds."),
    "C02": ("2 (C02)", "Every frame produced by Codec.encode (+utf-8, as send_msg does) and by send_msg itself for symbolic field values up "
                  "to code point 0x7ff is passed through an independent reference framer; exhausted per cell."),
    "C03": ("2 (C03)", "The real socket_read_task is driven over streams of 2-3 encoder-produced frames split at solver-chosen offsets "
                  "(every 1-cut partition, 2-cut partitions, the all-1-byte partition, marker-free symbolic garbage around frames); "
                  "delivered frames / journal rows must equal the frames sent."),
    "C04": ("2 (C04)", "One inductive step of the real _process_message from an arbitrary logged-on state (state, role, next-in, next-out, "
                  "resend watermark symbolic under the representation invariant) with an arbitrary inbound message (kind, MsgSeqNum, "
                  "PossDupFlag, NewSeqNo, BeginSeqNo symbolic), plus two-step unrollings; oracle = the property's delivery / counter / "
                  "ResendRequest clauses."),
    "C05": ("2 (C05)", "One send_msg step from every ConnectionState x role x pending-TestRequest flag with symbolic counter and message "
                  "kind; consecutive sends; sends caused by inbound traffic (C04 step harness): wire number == journal key == stored "
                  "counter - 1, refused sends leave no trace."),
    "C11": ("2 (C11)", "One step of the real _process_message from every ConnectionState x role with a message of every kind whose header "
                  "defects are solver variables (presence of 49/56/34, CompIDs, BeginString; MsgSeqNum below/at/above), then one further "
                  "symbolic input and a send attempt after a disconnect."),
    "C12": ("2 (C12)", "One arbitrary tick of the real heartbeat_timer_task with symbolic period, clock, silence and outstanding-TestRequest age "
                  "(lemmas with a two-tick tolerance), inbound TestRequest / Heartbeat handling with symbolic ids, and whole virtual-time "
                  "scenarios (dead / responsive / chatty peer) unrolled through the real task for small periods."),
    "C18": ("2 (C18)", "Small FIXContainer / FIXMessage objects built from symbolic tags (int / decimal-string / enum spelling) and symbolic values, "
                  "then one operation with symbolic arguments (get / contains / replace / setitem / delete / group insertion and lookup / "
                  "equality with containers and dicts), compared with a reference ordered map."),
    "C19": ("2 (C19)", "SchemaField.validate_value on symbolic value strings per FIX datatype (all short strings over type-specific alphabets incl. "
                  "whitespace, sign, underscore, exponent letters, non-ASCII digits; fixed-layout date/time values with symbolic characters "
                  "substituted / inserted / deleted at every position; all digit strings per calendar part) against reference lexical "
                  "predicates; enumerated fields of both dictionaries against their enumerations."),
    "C17": ("2 (C17)", "The real order object driven against an exchange model written from the FIX 4.4 order state change matrices, with an "
                  "in-flight queue in each direction: every interleaving of client requests, request / report deliveries and exchange actions "
                  "up to a depth bound (each move a solver-chosen index), plus step cells for ClOrdID chaining (symbolic roots, regex) and "
                  "request-after-reject; oracle = convergence, fresh ClOrdIDs, enum-member status, one outstanding request."),
    "C15": ("2 (C15)", "FIXSchema.validate on instances generated from an independent reading of both XML dictionaries: the valid instance, then "
                  "one fault at a solver-chosen position (dropped member, foreign / unknown tag, symbolic value against enumeration or type, "
                  "plain-vs-group, group member order / first / foreign / missing member at every nesting depth), statelessness of the schema "
                  "object, and rotations / transpositions of the <components> declarations."),
    "C06": ("2 (C06)", "The real _process_resend over journals built by real sends (application / session messages, holes, leftovers of an "
                  "earlier resend) with BeginSeqNo / EndSeqNo symbolic over a window containing 0, negatives, the journaled range and "
                  "beyond, and a symbolic replay decision per message; the reply is compared with an independent reference chain, counters, "
                  "state and journal rows outside the range must be unchanged."),
    "C20": ("2 (C20)", "FIXTester factories called with solver-chosen argument combinations (every ExecType x OrdStatus pair, quantity / price / "
                  "ClOrdID choices, order states reached by a prefix, session message factories with symbolic numbers): accepted results must "
                  "validate against FIX44.xml and an independent required-tag list, be quantity-consistent, carry fresh ExecIDs / stable "
                  "OrderIDs and be processed by the order object; clean session scripts are run against the simulated acceptor and a real "
                  "acceptor endpoint and compared."),
    "C07": ("2 (C07)", "Two real endpoints with real codec, session logic and journals (FakeSQLite files surviving the breaks) over in-memory pipes: "
                  "every fault schedule of the macro-step family (symbolic numbers of sends per side, solver-chosen delivered prefixes per "
                  "direction before each break, up to two breaks incl. one inside the recovery traffic, three recovery drain orders, "
                  "transport error kinds through the real reader task, drain() failing at a solver-chosen frame of the recovery traffic) is explored; oracle = exactly-once in-order delivery, both ACTIVE, counters agree."),
    "C09": ("2 (C09)", "Stored == live counters after every completed inbound step from an arbitrary logged-on state (a new object's restored "
                  "counters are compared); two-endpoint histories in which an endpoint is replaced by a new connection object over its journal "
                  "at solver-chosen quiescent points (graceful or killed) and at solver-chosen crash points inside a send (every journal "
                  "statement / commit slot, after write, after drain), inside inbound processing and inside the servicing of a ResendRequest "
                  "(every journal slot of the replay), followed by reconnect + Logon."),
    "C14": ("2 (C14)", "The real send_msg / _process_message (ResendRequest servicing, gap detection) / heartbeat task coroutines driven by a "
                  "symbolic scheduler over the library's own suspension points (drain with FIFO wake-up, awaited application hooks): every "
                  "schedule of 2-3 tasks up to a suspension-point bound, with symbolic starting counter and ResendRequest range; also the "
                  "initiator's first Logon (on_state_change suspends) racing with further sends."),
    "C08": ("2 (C08)", "Operation sequences on the real Journaler (FakeSQLite) with the crash slot as a solver variable over every point "
                  "before/after every SQL statement and commit, plus normal close; after the crash a fresh Journaler must show a state "
                  "at an operation boundary. Counterexamples and sampled witnesses are re-run on the real sqlite3 with os._exit in a child."),
    "C13": ("2 (C13)", "Every public Journaler method on FakeSQLite (interprets the SQL text of the running code) from pre-states with "
                  "symbolic rows across sessions (incl. mirror-image CompIDs) and directions, then operations with symbolic arguments, "
                  "compared step by step with a reference map model."),
    "C10": ("2 (C10)", "Codec.decode(silent=True) on fully symbolic buffers, grammar-shaped buffers with symbolic field contents over all 256 "
                  "byte values, and every single-byte substitution/deletion/insertion of valid frames; live-reader cells drive the real "
                  "socket_read_task over malformed input followed by valid frames."),
    "C16": ("5", "Every path of change_status / can_cancel / can_replace / is_finished over symbolic status, kind, ExecType and "
                  "reported-status strings (length <= 2) and both error modes is explored until z3 proves no branch is left: "
                  "the whole finite enum domain plus every non-member string of that length."),
}
REASON_TODO = "check not built yet in this revision (planned: see DESIGN.md section 2)"
def main():
    props = [json.loads(l)["id"] for l in open(os.path.join(ROOT, "properties.jsonl"))]
    na_extra = {}
    if os.path.exists(os.path.join(ROOT, "tools", "not_applicable.json")):
        na_extra = json.load(open(os.path.join(ROOT, "tools", "not_applicable.json")))
    checks = []
    for pid in props:
        if pid not in CHECKS: continue
        ref, text = CHECKS[pid]
        checks.append(dict(property_id=pid, quick_cmd=f"./vf check {pid} --tier quick",
            thorough_cmd=f"./vf check {pid} --tier thorough", evidence_file=f"evidence/{pid}.json",
            replay_cmd_template="./vf replay {path}", engine="vfx",
            level_claimed=dict(category="model_checking", text=text, design_ref=f"DESIGN.md 2 ({pid})"),
            level_note=NOTE, technique=TECH))
    m = dict(version=1, setup_cmd="sh ./setup.sh",
        hooks=dict(guard="ASYNCFIX_VERIF", enable="no source hooks are needed: stubs are installed by monkey-patching module attributes from the harness",
                   baseline_off_cmd="cd /repo && /venv/bin/python -m pytest -ra -q -p no:cacheprovider --timeout=900 --continue-on-collection-errors",
                   source_commits=[], add_only=True),
        engines=[dict(name="vfx", path="vfx/", serves_properties=[c["property_id"] for c in checks],
                      kind_free_text="bounded symbolic execution of /repo's Python source: CrossHair 0.0.110 as a library with own driver loop (vfx/sx.py), z3 decides each branch; FakeSQLite interprets the journaler's SQL")],
        checks=checks,
        notes="exit 0 = decision tree exhausted for every cell with no violation; exit 1 = VIOLATION (counterexample reproduced concretely); exit 2 = INCONCLUSIVE (budget, solver unknown, model gap) - never reported as success.",
        not_applicable=[dict(property_id=p, reason=na_extra.get(p, REASON_TODO)) for p in props if p not in CHECKS])
    json.dump(m, open(os.path.join(ROOT, "MANIFEST.json"), "w"), indent=1)
if __name__ == "__main__":
    main()
