#!/usr/bin/env python3
"""tools/rebase_seed.py <worktree-at-HEAD> <seed-name> [--from-worktree]: re-create a stored seeded change on /repo's HEAD
(patch applied with fuzz, or already edited in the worktree), confirm suite passes / demo fails with / passes without, store."""
import json, os, subprocess, sys
wt, name = sys.argv[1], sys.argv[2]
d = f"/verif/seeded/{name}"
def sh(cmd, cwd=wt):
    r = subprocess.run(cmd, shell=True, cwd=cwd, capture_output=True, text=True)
    return r.returncode, (r.stdout + r.stderr)
if "--from-worktree" not in sys.argv:
    sh("git checkout -q -- .")
    rc, out = sh(f"patch -p1 --fuzz=3 -s -f < {d}/patch.diff")
    sh("find . -name '*.rej' -delete -o -name '*.orig' -delete")
    if rc: sys.exit("patch failed: " + out)
rc, diff = sh("git diff -- asyncfix")
assert diff.strip(), "empty diff"
demo = [f for f in os.listdir(d) if f.startswith("demo_")][0]
import shutil; shutil.copy(f"{d}/{demo}", f"{wt}/{demo}")
t_rc, t_out = sh("/venv/bin/python -m pytest -q -p no:cacheprovider 2>&1 | tail -1")
d_rc, d_out = sh(f"PYTHONPATH={wt} /venv/bin/python {demo}")
sh("git stash -q")
o_rc, o_out = sh(f"PYTHONPATH={wt} /venv/bin/python {demo}")
sh("git stash pop -q")
print(name, "suite:", t_out.strip(), "| demo with:", d_rc, "| demo without:", o_rc)
if "192 passed" in t_out and d_rc != 0 and o_rc == 0:
    open(f"{d}/patch.diff", "w").write(diff)
    meta = json.load(open(f"{d}/meta.json"))
    meta.setdefault("rebased_from", meta["base_commit"])
    meta["base_commit"] = subprocess.check_output("git rev-parse --short HEAD", shell=True, cwd=wt, text=True).strip()
    meta["confirmed"].update(test_suite_with_change=t_out.strip(), demo_with_change_exit=d_rc, demo_without_change_exit=o_rc, demo_with_change_tail=d_out.strip()[-300:])
    json.dump(meta, open(f"{d}/meta.json", "w"), indent=1)
    print("  stored")
else:
    print("  NOT stored\n", d_out[-500:], o_out[-300:])
sh("git checkout -q -- .")
os.remove(f"{wt}/{demo}")
