#!/bin/sh
# tools/runall.sh [tier]: run every check once, print id, exit code, seconds, last line
T=${1:-quick}
cd /verif
for id in $(python3 -c "import json;print(' '.join(c['property_id'] for c in json.load(open('MANIFEST.json'))['checks']))"); do
  s=$(date +%s)
  timeout 7200 ./vf check $id --tier $T > /tmp/runall_$id.out 2>&1
  rc=$?
  e=$(date +%s)
  echo "$id rc=$rc $((e-s))s $(grep -c '^KNOWN-FINDING' /tmp/runall_$id.out)kf $(tail -1 /tmp/runall_$id.out | cut -c1-100)"
done
