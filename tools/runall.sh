#!/bin/sh
# tools/runall.sh [tier]: run every check once, print id, exit code, seconds, last line
T=${1:-quick}
cd "$(dirname "$0")/.."
for id in $(python3 -c "import json;print(' '.join(c['property_id'] for c in json.load(open('MANIFEST.json'))['checks']))"); do
  s=$(date +%s)
  timeout 7200 ./vf check $id --tier $T > ${RUNALL_OUT:-/tmp}/runall_${T}_$id.out 2>&1
  rc=$?
  e=$(date +%s)
  echo "$id rc=$rc $((e-s))s $(grep -c '^KNOWN-FINDING' ${RUNALL_OUT:-/tmp}/runall_${T}_$id.out)kf $(tail -1 ${RUNALL_OUT:-/tmp}/runall_${T}_$id.out | cut -c1-100)"
done
