#!/bin/sh
# usage: tools/try_seed.sh <PROP> <patch.diff> [tier]   -- applies the patch to /repo, runs the check, reverts
set -u
P=$1; D=$2; T=${3:-quick}
cd /repo || exit 9
if ! git diff --quiet; then echo "repo dirty"; exit 9; fi
git apply "$D" || { echo "patch does not apply"; exit 9; }
cd /verif
timeout 3000 ./vf check $P --tier $T > /tmp/seed_$P.out 2>&1
rc=$?
cd /repo && git checkout -- . 
cd /verif && git checkout -- evidence/$P.json 2>/dev/null
echo "exit=$rc"; grep -c "^VIOLATION" /tmp/seed_$P.out; grep -A1 "^VIOLATION" /tmp/seed_$P.out | grep cell= | head -4; tail -1 /tmp/seed_$P.out
