#!/bin/sh
# usage: tools/try_seed_wt.sh <PROP> <worktree with the change applied> [tier]  -- runs the check against the worktree (not /repo)
set -u
P=$1; W=$2; T=${3:-quick}
cd /verif
VERIF_REPO=$W timeout 3000 ./vf check $P --tier $T > /tmp/seed_$P.out 2>&1
rc=$?
git checkout -- evidence/$P.json 2>/dev/null
echo "$P exit=$rc"; grep -c "^VIOLATION" /tmp/seed_$P.out; grep -A1 "^VIOLATION" /tmp/seed_$P.out | grep cell= | head -4; tail -1 /tmp/seed_$P.out
