"""CrossHair model extensions (DESIGN.md 1.2).

Each entry replaces a stock CrossHair patch that would concretise (realise) the value at the
first use asyncfix makes of it.  Every model follows the documented contract of the Python
built-in it stands for; the per-path witness replay (vfx.run) compares every symbolic path with a
concrete run on the unpatched interpreter, so a wrong model shows up as a digest mismatch.
"""
import _strptime
import collections as _collections
import datetime as _dtm
import re

from crosshair import core
from crosshair.core import NoTracing, ResumedTracing, deep_realize, realize
from crosshair.libimpl import builtinslib as _bl
from crosshair.libimpl import relib as _relib
from crosshair.libimpl.builtinslib import LazyIntSymbolicStr
from crosshair.simplestructs import ShellMutableMap, SimpleDict
from crosshair.util import CrossHairValue

_SPEC = re.compile(r"%(?:(s|r)|(i|d)|0?\.([0-9]+)(i|d)|(%))")


def _has_symbolic(x):
    if isinstance(x, CrossHairValue):
        return True
    if isinstance(x, tuple):
        return any(_has_symbolic(i) for i in x)
    return False


def _digits(n, width):
    # n: int known to be in [0, 10**width); returns exactly `width` decimal digits
    out = ""
    for k in range(width - 1, -1, -1):
        d = (n // (10**k)) % 10
        out = out + chr(48 + d)
    return out


def sym_percent(self, other):
    """str % args for %s, %i, %d, %0.Ni / %.Ni keeping symbolic arguments symbolic."""
    with NoTracing():
        fmt_sym = isinstance(self, CrossHairValue)
        symbolic = fmt_sym or _has_symbolic(other)
    if not symbolic:
        return self.__mod__(other)
    if fmt_sym:
        return self.__mod__(deep_realize(other))
    args = other if isinstance(other, tuple) else (other,)
    pos = 0
    ai = 0
    out = ""
    for m in _SPEC.finditer(self):
        out = out + self[pos : m.start()]
        pos = m.end()
        if m.group(5):
            out = out + "%"
            continue
        if ai >= len(args):
            return self.__mod__(deep_realize(other))
        a = args[ai]
        ai += 1
        if m.group(1) == "r":
            out = out + repr(a)
        elif m.group(1):
            out = out + str(a)
        elif m.group(2):
            out = out + str(int(a))
        else:
            prec = int(m.group(3))
            a = int(a)
            if 0 <= a < 10**prec:
                out = out + _digits(a, prec)
            else:
                out = out + (self[m.start() : m.end()] % realize(a))
    if ai != len(args) or "%" in self[pos:]:
        return self.__mod__(deep_realize(other))
    return out + self[pos:]


_orig_format = _bl._format


def sym_format(obj, format_spec=""):
    """format(obj, '') == str(obj): f-strings in log calls keep their operands symbolic."""
    with NoTracing():
        sym = isinstance(obj, CrossHairValue) or isinstance(format_spec, CrossHairValue)
        if not sym and format_spec != "":
            return format(obj, format_spec)
        plain = (not isinstance(format_spec, CrossHairValue)) and format_spec == ""
    if plain:
        return str(obj)
    return _orig_format(obj, format_spec)


_orig_int = _bl._int


def sym_int(val=0, base=_bl._MISSING):
    """int(bytes) digit-wise for symbolic bytes (as CrossHair already does for str)."""
    with NoTracing():
        if not isinstance(val, CrossHairValue) and not isinstance(base, CrossHairValue):
            return int(val) if base is _bl._MISSING else int(val, base)
        pts = None
        if isinstance(val, _bl.BytesLike) and hasattr(val, "inner"):
            pts = val.inner
    if pts is not None and base is _bl._MISSING:
        with NoTracing():
            s = LazyIntSymbolicStr(list(pts)) if not isinstance(pts, LazyIntSymbolicStr) else pts
        return _orig_int(s)
    return _orig_int(val, base)


def sym_strptime(data_string, format):
    """datetime.strptime through CPython's pure-Python _strptime (C entry rejects proxies)."""
    with NoTracing():
        if not isinstance(data_string, CrossHairValue) and not isinstance(format, CrossHairValue):
            return _dtm.datetime.strptime(data_string, format)
    return _strptime._strptime_datetime(_dtm.datetime, data_string, format)


def _groupdict(self, default=None):
    # CrossHair 0.0.110 relib._Match.groupdict returns spans; return the substrings
    ret = {}
    for name, idx in self.re.groupindex.items():
        g = self.group(idx)
        ret[name] = default if g is None else g
    return ret


def sym_ordereddict(*a, **kw):
    """OrderedDict() as an insertion-ordered association list with symbolic key equality."""
    with NoTracing():
        base = _collections.OrderedDict(*a, **kw) if (a or kw) else {}
        return ShellMutableMap(SimpleDict(list(base.items())))


_orig_repr = _bl._repr


def sym_repr(obj):
    """repr() of a symbolic str without realising it.

    Exact when no character needs escaping; otherwise the text is quoted *without* escapes.  repr()
    of symbolic text only ever reaches log and exception messages in asyncfix (no oracle inspects
    message texts), and realising here would enumerate every rejected value of a validator.
    Only the repr() builtin / f-string !r / %r paths are modelled; a C-level repr (e.g. of an
    exception's args) still uses CrossHair's realising __repr__.
    """
    with NoTracing():
        is_sym_str = isinstance(obj, _bl.AnySymbolicStr)
    if is_sym_str:
        return "'" + obj + "'"
    return _orig_repr(obj)


def _ignorecase_mask(cp):
    # CrossHair 0.0.110 compiles chr(cp) unescaped: '+', '*', '(' ... raise re.error
    mask = _relib._UNICODE_IGNORECASE_MASKS.get(cp)
    if mask is None:
        chars = _relib.caseable_chars()
        matches = re.compile(re.escape(chr(cp)), re.IGNORECASE).findall(chars)
        mask = _relib.CharMask([ord(c) for c in matches])
        _relib._UNICODE_IGNORECASE_MASKS[cp] = mask
    return mask


def sym_str(*a, **kw):
    """str(): as CrossHair's own model, plus: str(exc) of an exception whose only argument is a
    symbolic str returns that string (BaseException.__str__ is C code and would realise it)."""
    with NoTracing():
        if len(a) == 1 and not kw:
            obj = a[0]
            if isinstance(obj, _bl.AnySymbolicStr):
                return obj
            if (isinstance(obj, BaseException) and len(obj.args) == 1
                    and isinstance(obj.args[0], _bl.AnySymbolicStr)
                    and type(obj).__str__ is BaseException.__str__):
                return obj.args[0]
            with ResumedTracing():
                return _bl.invoke_dunder(obj, "__str__")
    return str(*a, **kw)


def install():
    core._PATCH_REGISTRATIONS[str] = sym_str
    _relib.unicode_ignorecase_mask = _ignorecase_mask
    core._PATCH_REGISTRATIONS[repr] = sym_repr
    core._PATCH_REGISTRATIONS[str.__mod__] = sym_percent
    core._PATCH_REGISTRATIONS[format] = sym_format
    core._PATCH_REGISTRATIONS[int] = sym_int
    core._PATCH_REGISTRATIONS[_dtm.datetime.strptime] = sym_strptime
    core._PATCH_REGISTRATIONS[_collections.OrderedDict] = sym_ordereddict
    _relib._Match.groupdict = _groupdict
