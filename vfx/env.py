"""Shared environment stubs and reference oracles for the harnesses (DESIGN.md 1.3).

Everything here is part of the claim: the stubs replace the clock, the transport, the event loop
and sqlite3; the reference framer is the independent oracle of C02/C10.
"""
from __future__ import annotations

import logging
import sys

import asyncfix.connection as connmod
import asyncfix.journaler as jmod
from asyncfix import FIXMessage, FMsg, FTag
from asyncfix.codec import Codec
from asyncfix.connection import AsyncFIXConnection, ConnectionRole, ConnectionState
from asyncfix.journaler import Journaler
from asyncfix.message import MessageDirection
from asyncfix.protocol import FIXProtocol44
from asyncfix.protocol.order_single import FIXNewOrderSingle
from asyncfix.session import FIXSession

from . import fakesql

logging.disable(logging.CRITICAL)

FIXED_TIME = "20240101-00:00:00.000"
Codec.current_datetime = staticmethod(lambda: FIXED_TIME)
FIXNewOrderSingle.current_datetime = staticmethod(lambda: FIXED_TIME)

PROTO = FIXProtocol44()
SOH = 1


# --------------------------------------------------------------------------- reference framer
def _digits(bs):
    """bs: sequence of byte values; returns the decimal value or None if not all ASCII digits."""
    if len(bs) == 0:
        return None
    n = 0
    for x in bs:
        if x < 48 or x > 57:
            return None
        n = n * 10 + (x - 48)
    return n


def ref_frame(b, beginstring=b"FIX.4.4"):
    """Independent FIX frame check over bytes, written from the FIX session specification.

    Returns None if `b` is exactly one well-formed frame, else a reason string.
    """
    head = b"8=" + beginstring + b"\x019="
    n = len(b)
    if n < len(head) + 2 + 7:
        return "too short"
    if b[: len(head)] != head:
        return "does not start with BeginString + BodyLength"
    i = len(head)
    j = i
    while j < n and b[j] != SOH:
        j += 1
    if j >= n:
        return "BodyLength not terminated"
    blen = _digits(b[i:j])
    if blen is None:
        return "BodyLength is not a decimal number"
    body = j + 1
    if b[body : body + 3] != b"35=":
        return "MsgType is not the third field"
    trailer = body + blen
    if trailer + 7 != n:
        return f"BodyLength {blen} does not match the {n - 7 - body} bytes before CheckSum"
    if b[trailer - 1] != SOH:
        return "no field separator before CheckSum"
    if b[trailer : trailer + 3] != b"10=" or b[n - 1] != SOH:
        return "trailer is not 10=ddd<SOH>"
    ck = _digits(b[trailer + 3 : trailer + 6])
    if ck is None:
        return "CheckSum is not three digits"
    s = 0
    for x in b[:trailer]:
        s += x
    if ck != s % 256:
        return f"CheckSum {ck} != byte sum {s % 256}"
    return None


def ref_frame_no_bodylength(b, beginstring=b"FIX.4.4"):
    """Like ref_frame but ignoring the *value* of BodyLength (used to delimit a known finding)."""
    head = b"8=" + beginstring + b"\x019="
    n = len(b)
    if n < len(head) + 2 + 7 or b[: len(head)] != head:
        return "header"
    trailer = n - 7
    if b[trailer - 1] != SOH or b[trailer : trailer + 3] != b"10=" or b[n - 1] != SOH:
        return "trailer"
    ck = _digits(b[trailer + 3 : trailer + 6])
    if ck is None:
        return "checksum digits"
    s = 0
    for x in b[:trailer]:
        s += x
    if ck != s % 256:
        return "checksum"
    return None


def ref_fields(b):
    """Split a frame accepted by ref_frame into [(tag bytes, value bytes)]; None if malformed."""
    out = []
    i = 0
    n = len(b)
    while i < n:
        j = i
        while j < n and b[j] != SOH:
            j += 1
        if j >= n:
            return None
        f = b[i:j]
        k = 0
        while k < len(f) and f[k] != 61:
            k += 1
        if k == 0 or k >= len(f):
            return None
        out.append((f[:k], f[k + 1 :]))
        i = j + 1
    return out


# --------------------------------------------------------------------------- session scaffolding
class BusyLoop(RuntimeError):
    pass


class RecLogger:
    """Logger stand-in: swallowed exceptions become observable."""

    def __init__(self):
        self.exceptions = []
        self.warnings = 0

    def debug(self, *a, **k):
        pass

    info = debug

    def warning(self, *a, **k):
        self.warnings += 1

    error = warning

    def exception(self, *a, **k):
        e = sys.exc_info()[1]
        self.exceptions.append(type(e).__name__ + ": " + str(e)[:80])
        if len(self.exceptions) > 40:
            raise BusyLoop("a library task keeps failing without ever suspending")


class Writer:
    def __init__(self, events=None):
        self.frames = []
        self.closed = False
        self.events = events

    def write(self, data):
        if self.closed:
            raise RuntimeError("write after close")
        self.frames.append(data)
        if self.events is not None:
            self.events.append(("frame", len(self.frames) - 1))

    async def drain(self):
        pass

    def close(self):
        self.closed = True

    async def wait_closed(self):
        pass


class Conn(AsyncFIXConnection):
    """Real connection object with recording application hooks."""

    def __init__(self, journal, sender="S", target="T", hb=30):
        self.events = []
        self.app = []
        super().__init__(PROTO, sender, target, journal, "h", 1, heartbeat_period=hb,
                         logger=RecLogger())

    async def on_message(self, msg):
        self.app.append(msg)
        self.events.append(("msg", msg.get(FTag.MsgSeqNum, None)))

    async def on_connect(self):
        self.events.append(("connect",))

    async def on_disconnect(self):
        self.events.append(("disconnect",))

    async def on_logon(self, ok):
        self.events.append(("logon", ok))

    async def on_logout(self, m):
        self.events.append(("logout",))

    async def on_state_change(self, s):
        self.events.append(("state", int(s)))


def run(coro):
    """Drive a coroutine that is not expected to suspend."""
    try:
        coro.send(None)
    except StopIteration as e:
        return e.value
    coro.close()
    raise RuntimeError("coroutine suspended unexpectedly")


class FakeDB:
    """Installs FakeSQLite in place of asyncfix.journaler.sqlite3 for the harness' lifetime."""

    def __init__(self):
        self.mod = fakesql.FakeSqlite3()
        jmod.sqlite3 = self.mod

    def journaler(self, filename="journal.db"):
        jmod.sqlite3 = self.mod
        return Journaler(filename)


def mkconn(state, role, next_in, next_out, db=None, sender="S", target="T", hb=30):
    """A connection in an arbitrary state built directly (no initialisation history)."""
    db = db or FakeDB()
    j = db.journaler()
    c = Conn(j, sender, target, hb)
    j.set_seq_num(c._session, next_num_out=next_out, next_num_in=next_in)
    j.conn.commit()
    c._connection_state = state
    c._connection_role = role
    c._socket_writer = Writer(c.events)
    c._socket_reader = object()
    c.db = db
    return c


def inbound(msg_type, seq, extra=None, sender="T", target="S", beginstring="FIX.4.4"):
    """A decoded inbound message as Codec.decode would return it.

    Numeric header fields hold the *integer* ("integer view", DESIGN.md 1.3): int(msg[34]) is the
    identity on a symbolic int.
    """
    m = FIXMessage(msg_type)
    m.tags["8"] = beginstring
    m.tags["9"] = "100"
    m.tags["35"] = str(msg_type)
    if sender is not None:
        m.tags["49"] = sender
    if target is not None:
        m.tags["56"] = target
    if seq is not None:
        m.tags["34"] = seq
    m.tags["52"] = FIXED_TIME
    for k, v in (extra or {}).items():
        m.tags[str(k)] = v
    m.tags["10"] = "000"
    return m


def raw_for(msg_type, seq):
    """Bytes handed to the journal for an injected inbound message (only 34= is read back)."""
    return (b"8=FIX.4.4\x019=5\x0135=" + str(msg_type).encode() + b"\x0134=" + str(seq).encode()
            + b"\x0110=000\x01")


def frame_fields(frame):
    """Decode an outbound frame written by the real code into {tag: value} (concrete or symbolic
    bytes); uses the reference splitter, not the library's decoder."""
    fs = ref_fields(frame)
    if fs is None:
        return None
    d = {}
    for t, v in fs:
        d[bytes(t).decode("latin-1") if not hasattr(t, "decode") else t.decode("latin-1")] = v
    return d


# --------------------------------------------------------------------------- event loop stubs
import asyncio as _asyncio
import types as _types


class Yield:
    """Awaitable that suspends the coroutine once and hands `what` to the harness trampoline."""

    def __init__(self, what=None):
        self.what = what

    def __await__(self):
        yield self


async def _fake_sleep(d):
    await Yield(("sleep", d))


class VClock:
    """Virtual wall clock in integer seconds (may be symbolic)."""

    def __init__(self, t=1_700_000_000):
        self.t = t

    def time(self):
        return self.t


CLOCK = VClock()


def install_loop(clock=None):
    """Replace asyncio / time in asyncfix.connection by the trampoline stubs."""
    global CLOCK
    if clock is not None:
        CLOCK = clock
    connmod.asyncio = _types.SimpleNamespace(
        sleep=_fake_sleep, CancelledError=_asyncio.CancelledError, create_task=None,
        StreamReader=_asyncio.StreamReader, StreamWriter=_asyncio.StreamWriter)
    connmod.time = CLOCK
    return CLOCK


class Reader:
    """StreamReader stand-in: returns the scripted chunks, then EOF (b'')."""

    def __init__(self, chunks):
        self.chunks = [c for c in chunks]

    async def read(self, n):
        if self.chunks:
            return self.chunks.pop(0)
        return b""


def drive_reader(conn, max_steps=64):
    """Run conn.socket_read_task() until it has consumed all scripted chunks and seen EOF."""
    co = conn.socket_read_task()
    try:
        for _ in range(max_steps):
            co.send(None)  # returns at the first asyncio.sleep after the reader is gone
            if conn._socket_reader is None:
                return
        raise RuntimeError("reader task did not finish")
    finally:
        co.close()
