"""FakeSQLite: a pure-Python stand-in for the `sqlite3` module as used by asyncfix.journaler.

It *parses and interprets the SQL text the real Journaler passes at run time*, so a change to a
statement in /repo (a dropped `AND direction = ?`, `>=` turned into `>`, a wrong column) changes
the behaviour seen by the checks.  Conditions are evaluated with ordinary Python comparisons, so
symbolic parameters fork in the solver.  Anything outside the subset raises ModelGap, which makes
the run inconclusive - never a pass.

Transaction model = sqlite3's legacy transaction control (the Python 3.12 default): INSERT /
UPDATE / DELETE open a transaction implicitly, commit() publishes the working image, close() or a
crash discards it.  DDL outside a transaction is durable at once.  SQLite's own atomic commit is
trusted (the property anchors say so): a commit is modelled as atomic, with a crash slot before
and after it.
"""
import re

from .sx import ModelGap


class IntegrityError(Exception):
    pass


class Crash(BaseException):
    """The simulated process died here."""


_TOK = re.compile(r"\s*(?:(\?)|([A-Za-z_][A-Za-z_0-9]*)|(\d+)|(>=|<=|<>|!=|=|<|>|\(|\)|,|\*|\+|-))")


def _toks(sql):
    out = []
    pos = 0
    sql = sql.strip().rstrip(";").strip()
    while pos < len(sql):
        m = _TOK.match(sql, pos)
        if not m:
            raise ModelGap("SQL outside the modelled subset: " + sql[pos:])
        pos = m.end()
        if m.group(1):
            out.append(("?", "?"))
        elif m.group(2):
            out.append(("id", m.group(2)))
        elif m.group(3):
            out.append(("num", int(m.group(3))))
        else:
            out.append(("op", m.group(4)))
    return out


class _Table:
    def __init__(self, name, cols, types, pk, uniq, auto, defaults, notnull):
        self.name = name
        self.cols = cols
        self.types = types
        self.pk = pk
        self.uniq = uniq
        self.auto = auto
        self.defaults = defaults
        self.notnull = notnull
        self.rows = []
        self.max_rowid_ever = 0

    def copy(self):
        t = _Table(self.name, self.cols, self.types, self.pk, self.uniq, self.auto, self.defaults,
                   self.notnull)
        t.rows = [dict(r) for r in self.rows]
        t.max_rowid_ever = self.max_rowid_ever
        return t


class _DB:
    def __init__(self):
        self.tables = {}

    def snapshot(self):
        d = _DB()
        d.tables = {n: t.copy() for n, t in self.tables.items()}
        return d


class Store:
    """One database 'file': the committed image survives connections and crashes."""

    def __init__(self):
        self.committed = _DB()
        self.opens = 0


class FakeSqlite3:
    """Object to be swapped in for the `sqlite3` module attribute of asyncfix.journaler."""

    IntegrityError = IntegrityError

    def __init__(self):
        self.files = {}
        self.crash_at = None  # slot number at which the process dies (may be symbolic)
        self.slot = 0  # slots passed so far (every execute has 2, every commit has 2)
        self.trace = []  # (slot, what) for evidence / replay

    def store(self, filename):
        if filename not in self.files:
            self.files[filename] = Store()
        return self.files[filename]

    def connect(self, filename, *a, **kw):
        if a or kw:
            raise ModelGap("sqlite3.connect options")
        if filename == ":memory:":
            st = Store()
        else:
            st = self.store(filename)
        st.opens += 1
        return Connection(self, st)

    def tick(self, what):
        self.slot += 1
        if self.crash_at is not None and self.slot == self.crash_at:
            raise Crash(what)


class Connection:
    def __init__(self, mod, store):
        self.mod = mod
        self.store = store
        self.work = store.committed.snapshot()
        self.in_tx = False
        self.closed = False
        self.savepoints = []  # [(name, snapshot, started_the_transaction)]

    @property
    def in_transaction(self):
        return self.in_tx

    def cursor(self):
        return Cursor(self)

    def execute(self, sql, params=()):
        return self.cursor().execute(sql, params)

    def __enter__(self):
        return self

    def __exit__(self, et, ev, tb):
        if et is None:
            self.commit()
        else:
            self.rollback()
        return False

    def _publish(self):
        self.store.committed = self.work.snapshot()
        self.in_tx = False
        self.savepoints = []

    def commit(self):
        self.mod.tick("before commit")
        self._publish()
        self.mod.tick("after commit")

    def rollback(self):
        self.work = self.store.committed.snapshot()
        self.in_tx = False
        self.savepoints = []

    def close(self):
        self.closed = True  # uncommitted work is discarded


class Cursor:
    def __init__(self, conn):
        self.conn = conn
        self.result = []
        self.pos = 0
        self.lastrowid = None

    def close(self):
        pass

    def __iter__(self):
        return self

    def __next__(self):
        if self.pos >= len(self.result):
            raise StopIteration
        r = self.result[self.pos]
        self.pos += 1
        return r

    def fetchall(self):
        r = self.result[self.pos:]
        self.pos = len(self.result)
        return r

    def fetchone(self):
        try:
            return self.__next__()
        except StopIteration:
            return None

    # ------------------------------------------------------------------ execute
    def execute(self, sql, params=()):
        if self.conn.closed:
            raise ModelGap("execute on closed connection")
        self.conn.mod.tick("before " + sql[:24])
        self.t = _toks(sql)
        self.i = 0
        self.p = list(params)
        kw = self.t[0][1].upper() if self.t[0][0] == "id" else ""
        if kw == "CREATE":
            self._create()
            if not self.conn.in_tx:
                # DDL in autocommit state is durable immediately
                self.conn.store.committed = self.conn.work.snapshot()
        elif kw == "INSERT":
            self.conn.in_tx = True
            self._insert()
        elif kw == "UPDATE":
            self.conn.in_tx = True
            self._update()
        elif kw == "DELETE":
            self.conn.in_tx = True
            self._delete()
        elif kw == "SELECT":
            self._select()
        elif kw == "SAVEPOINT":
            self.eat()
            name = self.eat()[1].lower()
            self.conn.savepoints.append((name, self.conn.work.snapshot(), not self.conn.in_tx))
            self.conn.in_tx = True  # a savepoint outside a transaction starts one
        elif kw == "RELEASE":
            self.eat()
            if self.iskw("SAVEPOINT"):
                self.eat()
            name = self.eat()[1].lower()
            idx = self._find_savepoint(name)
            started = self.conn.savepoints[idx][2]
            del self.conn.savepoints[idx:]
            if started and idx == 0:
                self.conn._publish()  # releasing the outermost savepoint commits
        elif kw == "ROLLBACK":
            self.eat()
            if self.iskw("TRANSACTION"):
                self.eat()
            if self.iskw("TO"):
                self.eat()
                if self.iskw("SAVEPOINT"):
                    self.eat()
                name = self.eat()[1].lower()
                idx = self._find_savepoint(name)
                self.conn.work = self.conn.savepoints[idx][1].snapshot()
                del self.conn.savepoints[idx + 1:]
            else:
                self.conn.rollback()
        elif kw in ("COMMIT", "END"):
            self.eat()
            if self.iskw("TRANSACTION"):
                self.eat()
            self.conn._publish()
        elif kw == "BEGIN":
            self.eat()
            while self.peek()[0] == "id":
                self.eat()
            if self.conn.in_tx:
                raise ModelGap("BEGIN inside a transaction")
            self.conn.in_tx = True
        else:
            raise ModelGap("SQL statement outside the modelled subset: " + sql)
        if self.i != len(self.t):
            raise ModelGap("trailing SQL not understood: " + sql)
        if self.p:
            raise ModelGap("unused SQL parameters: " + sql)
        self.conn.mod.tick("after " + sql[:24])
        return self

    def _find_savepoint(self, name):
        for i in range(len(self.conn.savepoints) - 1, -1, -1):
            if self.conn.savepoints[i][0] == name:
                return i
        raise ModelGap("no such savepoint " + name)

    # ------------------------------------------------------------------ parsing helpers
    def peek(self):
        return self.t[self.i] if self.i < len(self.t) else ("eof", None)

    def eat(self, val=None):
        if self.i >= len(self.t):
            raise ModelGap("unexpected end of SQL")
        k = self.t[self.i]
        self.i += 1
        if val is not None and str(k[1]).upper() != val:
            raise ModelGap(f"SQL: expected {val}, got {k[1]}")
        return k

    def iskw(self, w):
        k = self.peek()
        return k[0] == "id" and k[1].upper() == w

    def param(self):
        if not self.p:
            raise ModelGap("missing SQL parameter")
        return self.p.pop(0)

    def table(self):
        name = self.eat()[1]
        if name not in self.conn.work.tables:
            raise ModelGap("no such table " + str(name))
        return self.conn.work.tables[name]

    def col(self, tb):
        c = self.eat()[1]
        if c != "rowid" and c not in tb.cols:
            raise ModelGap(f"no such column {c} in {tb.name}")
        return c

    def idlist(self):
        self.eat("(")
        out = []
        while self.peek()[1] != ")":
            k = self.eat()
            if k[1] != ",":
                out.append(k[1])
        self.eat(")")
        return out

    # ------------------------------------------------------------------ statements
    def _create(self):
        self.eat("CREATE")
        self.eat("TABLE")
        ifne = False
        if self.iskw("IF"):
            self.eat("IF")
            self.eat("NOT")
            self.eat("EXISTS")
            ifne = True
        name = self.eat()[1]
        self.eat("(")
        cols, types, pk, uniq, auto, defaults, notnull = [], {}, None, None, None, {}, set()
        while True:
            if self.iskw("PRIMARY"):
                self.eat()
                self.eat("KEY")
                pk = self.idlist()
            elif self.iskw("UNIQUE"):
                self.eat()
                uniq = self.idlist()
            else:
                c = self.eat()[1]
                cols.append(c)
                types[c] = self.eat()[1].upper()
                while self.peek()[1] not in (",", ")"):
                    k = self.eat()
                    w = k[1].upper() if k[0] == "id" else k[1]
                    if w == "NOT":
                        self.eat("NULL")
                        notnull.add(c)
                    elif w == "PRIMARY":
                        self.eat("KEY")
                        pk = [c]
                    elif w == "AUTOINCREMENT":
                        auto = c
                    elif w == "DEFAULT":
                        defaults[c] = self.eat()[1]
                    else:
                        raise ModelGap("column constraint " + str(w))
            if self.eat()[1] == ")":
                break
        if name in self.conn.work.tables:
            if not ifne:
                raise ModelGap("table exists")
            return
        self.conn.work.tables[name] = _Table(name, cols, types, pk, uniq, auto, defaults, notnull)

    @staticmethod
    def _coerce(tb, c, v):
        if c != "rowid" and tb.types.get(c) == "INTEGER" and isinstance(v, str):
            raise ModelGap("text value for INTEGER column (type affinity not modelled)")
        return v

    def _check_unique(self, tb, row):
        for key in (tb.pk, tb.uniq):
            if not key:
                continue
            for r in tb.rows:
                same = True
                for c in key:
                    if not (r[c] == row[c]):
                        same = False
                        break
                if same:
                    raise IntegrityError("UNIQUE constraint failed: " + tb.name)

    def _insert(self):
        self.eat("INSERT")
        conflict = None
        if self.iskw("OR"):
            self.eat()
            conflict = self.eat()[1].upper()
            if conflict not in ("IGNORE", "REPLACE"):
                raise ModelGap("INSERT OR " + conflict)
        self.eat("INTO")
        tb = self.table()
        cols = tb.cols
        if self.peek()[1] == "(":
            cols = self.idlist()
        self.eat("VALUES")
        self.eat("(")
        vals = []
        while self.peek()[1] != ")":
            k = self.eat()
            if k[0] == "?":
                vals.append(self.param())
            elif k[0] == "num":
                vals.append(k[1])
            elif k[1] != ",":
                raise ModelGap("INSERT value " + str(k[1]))
        self.eat(")")
        if len(vals) != len(cols):
            raise ModelGap("INSERT arity")
        row = {c: tb.defaults.get(c) for c in tb.cols}
        for c, v in zip(cols, vals):
            row[c] = self._coerce(tb, c, v)
        single_int_pk = tb.pk and len(tb.pk) == 1 and tb.types.get(tb.pk[0]) == "INTEGER"
        if single_int_pk and row[tb.pk[0]] is not None:
            raise ModelGap("explicit rowid")
        if tb.auto:
            rid = tb.max_rowid_ever + 1
        else:
            rid = 1
            for r in tb.rows:
                if r["rowid"] >= rid:
                    rid = r["rowid"] + 1
        if single_int_pk:
            row[tb.pk[0]] = rid
        row["rowid"] = rid
        for c in tb.notnull:
            if row[c] is None:
                raise IntegrityError("NOT NULL constraint failed")
        try:
            self._check_unique(tb, row)
        except IntegrityError:
            if conflict == "IGNORE":
                return
            if conflict == "REPLACE":
                keep = []
                for r in tb.rows:
                    clash = False
                    for key in (tb.pk, tb.uniq):
                        if key and all(r[c] == row[c] for c in key):
                            clash = True
                    if not clash:
                        keep.append(r)
                tb.rows = keep
            else:
                raise
        if rid > tb.max_rowid_ever:
            tb.max_rowid_ever = rid
        tb.rows.append(row)
        self.lastrowid = rid

    def _where(self, tb):
        conds = []
        if not self.iskw("WHERE"):
            return conds
        self.eat()
        while True:
            c = self.col(tb)
            if self.iskw("IN"):
                self.eat()
                self.eat("(")
                vs = []
                while self.peek()[1] != ")":
                    k = self.eat()
                    if k[0] == "?":
                        vs.append(self._coerce(tb, c, self.param()))
                    elif k[1] != ",":
                        raise ModelGap("IN list")
                self.eat(")")
                conds.append((c, "in", vs))
            else:
                op = self.eat()[1]
                k = self.eat()
                if k[0] == "?":
                    v = self._coerce(tb, c, self.param())
                elif k[0] == "num":
                    v = k[1]
                else:
                    raise ModelGap("WHERE operand")
                conds.append((c, op, v))
            if self.iskw("AND"):
                self.eat()
                continue
            break
        return conds

    @staticmethod
    def _match(r, conds):
        for c, op, v in conds:
            x = r[c]
            if x is None:
                return False
            if op == "=":
                ok = x == v
            elif op == ">=":
                ok = x >= v
            elif op == "<=":
                ok = x <= v
            elif op == ">":
                ok = x > v
            elif op == "<":
                ok = x < v
            elif op in ("<>", "!="):
                ok = x != v
            elif op == "in":
                ok = False
                for y in v:
                    if x == y:
                        ok = True
                        break
            else:
                raise ModelGap("operator " + str(op))
            if not ok:
                return False
        return True

    def _update(self):
        self.eat("UPDATE")
        tb = self.table()
        self.eat("SET")
        sets = []
        while True:
            c = self.col(tb)
            self.eat("=")
            sets.append((c, self._set_expr(tb, c)))
            if self.peek()[1] == ",":
                self.eat()
                continue
            break
        conds = self._where(tb)
        for r in tb.rows:
            if self._match(r, conds):
                vals = [(c, f(r)) for c, f in sets]  # right-hand sides see the row before the update
                for c, v in vals:
                    if (tb.pk and c in tb.pk) or (tb.uniq and c in tb.uniq):
                        raise ModelGap("UPDATE of a key column")
                    r[c] = v

    def _set_operand(self, tb, c):
        """`?` | number | column | MAX(e, e) | MIN(e, e)  ->  function of the row (integers only)."""
        k = self.eat()
        if k[0] == "?":
            v = self._coerce(tb, c, self.param())
            return lambda r: v
        if k[0] == "num":
            return lambda r: k[1]
        if k[0] == "id" and k[1].upper() in ("MAX", "MIN") and self.peek()[1] == "(":
            big = k[1].upper() == "MAX"
            self.eat("(")
            a = self._set_expr(tb, c)
            self.eat(",")
            b = self._set_expr(tb, c)
            self.eat(")")

            def pick(r):
                x, y = a(r), b(r)
                if x is None or y is None:
                    return None  # scalar max() / min() return NULL if any argument is NULL
                if type(x) is str or type(y) is str:
                    raise ModelGap("MAX / MIN over text")
                return (x if x >= y else y) if big else (x if x <= y else y)
            return pick
        if k[0] == "id" and k[1] in tb.cols:
            name = k[1]
            return lambda r: r[name]
        raise ModelGap("SET operand")

    def _set_expr(self, tb, c):
        f = self._set_operand(tb, c)
        while self.peek()[1] in ("+", "-"):
            op = self.eat()[1]
            g = self._set_operand(tb, c)

            def arith(r, f=f, g=g, op=op):
                x, y = f(r), g(r)
                if x is None or y is None:
                    return None
                if type(x) is str or type(y) is str:
                    raise ModelGap("arithmetic over text")
                return x + y if op == "+" else x - y
            f = arith
        return f

    def _delete(self):
        self.eat("DELETE")
        self.eat("FROM")
        tb = self.table()
        conds = self._where(tb)
        tb.rows = [r for r in tb.rows if not self._match(r, conds)]

    def _select(self):
        self.eat("SELECT")
        cols = []
        while not self.iskw("FROM"):
            k = self.eat()
            if k[1] == "*":
                raise ModelGap("SELECT *")
            if k[1] != ",":
                cols.append(k[1])
        self.eat("FROM")
        tb = self.table()
        for c in cols:
            if c != "rowid" and c not in tb.cols:
                raise ModelGap("no such column " + c)
        conds = self._where(tb)
        rows = [r for r in tb.rows if self._match(r, conds)]
        if self.iskw("ORDER"):
            self.eat()
            self.eat("BY")
            oc = self.col(tb)
            # insertion sort with plain comparisons (symbolic keys fork in the solver);
            # ties keep rowid order, as SQLite's scan does
            out = []
            for r in rows:
                k = len(out)
                while k > 0 and out[k - 1][oc] > r[oc]:
                    k -= 1
                out.insert(k, r)
            rows = out
        self.result = [tuple(r[c] for c in cols) for r in rows]
        self.pos = 0
