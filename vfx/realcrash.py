"""Concrete crash replay against the real sqlite3 (DESIGN.md 1.5, C08).

Runs a list of concrete journal operations in a forked child process against a real SQLite
file; a slot-counting wrapper around the sqlite3 module calls os._exit() at the chosen slot
(before/after every execute and every commit - the same numbering as FakeSQLite).  The parent
then reopens the file with the real sqlite3 and reports what a fresh Journaler sees.
"""
import os
import shutil
import sqlite3 as real_sqlite3
import tempfile

import asyncfix.journaler as jmod

ROOT = os.path.dirname(os.path.dirname(os.path.abspath(__file__)))


class _Cur:
    def __init__(self, mod, cur):
        self._m, self._c = mod, cur

    def execute(self, sql, params=()):
        self._m.tick()
        r = self._c.execute(sql, params)
        self._m.tick()
        return self

    def __iter__(self):
        return iter(self._c)

    def __next__(self):
        return next(self._c)

    @property
    def lastrowid(self):
        return self._c.lastrowid

    def close(self):
        self._c.close()


class _Conn:
    def __init__(self, mod, conn):
        self._m, self._c = mod, conn

    def cursor(self):
        return _Cur(self._m, self._c.cursor())

    def commit(self):
        self._m.tick()
        self._c.commit()
        self._m.tick()

    def close(self):
        self._c.close()

    def rollback(self):
        self._c.rollback()

    def execute(self, sql, params=()):
        return self.cursor().execute(sql, params)

    def __getattr__(self, name):
        return getattr(self._c, name)


class CrashingSqlite3:
    IntegrityError = real_sqlite3.IntegrityError

    def __init__(self, crash_at):
        self.crash_at = crash_at
        self.slot = 0

    def connect(self, filename):
        return _Conn(self, real_sqlite3.connect(filename))

    def tick(self):
        self.slot += 1
        if self.crash_at is not None and self.slot == self.crash_at:
            os._exit(17)


def run_in_child(script, crash_at):
    """script(journaler_factory, report) runs the operations; report(k) marks operation k as
    completed.  Returns (completed_ops, crashed, workdir); the caller observes and removes workdir."""
    d = tempfile.mkdtemp(prefix="vfcrash", dir=ROOT)
    path = os.path.join(d, "journal.db")
    r, w = os.pipe()
    pid = os.fork()
    if pid == 0:
        code = 0
        try:
            os.close(r)
            jmod.sqlite3 = CrashingSqlite3(crash_at)

            def report(k):
                os.write(w, b"%d\n" % k)

            script(lambda: jmod.Journaler(path), report)
        except BaseException:
            code = 3
        finally:
            os._exit(code)
    os.close(w)
    data = b""
    while True:
        chunk = os.read(r, 4096)
        if not chunk:
            break
        data += chunk
    os.close(r)
    _, status = os.waitpid(pid, 0)
    code = os.waitstatus_to_exitcode(status)
    if code not in (0, 17):
        shutil.rmtree(d, ignore_errors=True)
        raise RuntimeError(f"crash replay child failed with exit code {code}")
    done = [int(x) for x in data.split()]
    return done, code == 17, d, path


def reopen(path):
    jmod.sqlite3 = real_sqlite3
    return jmod.Journaler(path)
