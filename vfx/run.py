"""Cell runner, verdict discipline, evidence and replay files (DESIGN.md 1.4-1.7)."""
from __future__ import annotations

import concurrent.futures as cf
import hashlib
import importlib
import json
import multiprocessing as mp
import os
import sys
import time

ROOT = os.path.dirname(os.path.dirname(os.path.abspath(__file__)))
REPO = os.environ.get("VERIF_REPO", "/repo").rstrip("/")  # the tree under check (default: /repo itself)
EVIDENCE = os.path.join(ROOT, "evidence")
REPLAYS = os.path.join(ROOT, "replays")
KNOWN = os.path.join(ROOT, "known_findings.json")


class Cell:
    """One harness instance with its structural parameters fixed."""

    def __init__(self, name, fn, bounds, goals=(), regions=(), budget_s=900.0, per_path_s=120.0):
        self.name = name
        self.fn = fn
        self.bounds = bounds
        self.goals = list(goals)
        self.regions = list(regions)  # known-finding regions this harness knows how to exclude
        self.budget_s = budget_s
        self.per_path_s = per_path_s


def load_known(prop):
    if not os.path.exists(KNOWN):
        return []
    with open(KNOWN) as f:
        data = json.load(f)
    return [e for e in data.get("findings", []) if e["property"] == prop]


def _module(prop):
    return importlib.import_module("checks." + prop.lower())


def _find_cell(prop, tier, name):
    for c in _module(prop).cells(tier):
        if c.name == name:
            return c
    raise KeyError(name)


def run_cell(prop, tier, name, known_regions):
    """Worker entry: explore one cell symbolically, then validate every path concretely."""
    from . import sx

    import random
    random.seed(int(os.environ.get("VERIF_SEED", "0") or 0))  # only orders the exploration; the tree is exhausted
    cell = _find_cell(prop, tier, name)
    known = [r for r in known_regions if r in cell.regions]
    t0 = time.time()
    st = sx.explore(cell.fn, known=known, budget_s=cell.budget_s, per_path_s=cell.per_path_s)
    res = dict(cell=name, bounds=cell.bounds, paths=st["paths"], confirmed=st["confirmed"],
               ignored=st["ignored"], unknown=st["unknown"], unknown_why=st["unknown_why"],
               exhausted=st["exhausted"], decisions=st["decisions"],
               solver_queries=st["solver_queries"], solver_s=st["solver_s"],
               explore_wall_s=st["wall_s"], cpu_s=st["cpu_s"], goals=st["goals"],
               goals_required=cell.goals, excluded_regions=known, error=st["error"],
               violation=None, cex_unreproduced=None, mismatches=[], replayed=0, samples=[],
               functions=[])
    # -- per-path witness replay against the real code on the plain interpreter
    coll = sx._FnCollector()
    with coll:
        for inputs, obs, goals in st["witnesses"]:
            r = sx.replay(cell.fn, inputs, known)
            res["replayed"] += 1
            if r[0] != "ok" or r[1] != obs:
                if len(res["mismatches"]) < 3:
                    res["mismatches"].append(dict(inputs=inputs, symbolic=obs, concrete=r))
    res["functions"] = sorted(coll.seen)
    step = max(1, len(st["witnesses"]) // 3)
    for inputs, obs, goals in st["witnesses"][::step][:3]:
        res["samples"].append(dict(cell=name, inputs=inputs, observation=obs, goals=goals))
    # -- counterexample replay
    if st["cex"] is not None:
        inputs, msg = st["cex"]
        r = sx.replay(cell.fn, inputs, known, role="cex")
        if r[0] == "violation":
            res["violation"] = dict(cell=name, inputs=inputs, message=r[1], symbolic_message=msg)
        else:
            res["cex_unreproduced"] = dict(inputs=inputs, symbolic_message=msg, concrete=r)
    res["wall_s"] = round(time.time() - t0, 3)
    return res


def replay_known(prop, tier, entry):
    """Replay the committed witness of a known finding (without excluding its region)."""
    from . import sx

    w = entry["witness"]
    try:
        cell = _find_cell(prop, w.get("tier", tier), w["cell"])
    except KeyError:
        return ("error", "cell not found: " + w["cell"])
    return sx.replay(cell.fn, w["inputs"], (), role="known")


def _pool(n):
    return cf.ProcessPoolExecutor(max_workers=max(1, min(n, os.cpu_count() or 4, 16)),
                                  mp_context=mp.get_context("spawn"))


def check(prop, tier, seed=0):
    t0 = time.time()
    mod = _module(prop)
    os.makedirs(EVIDENCE, exist_ok=True)
    findings = load_known(prop)
    known_lines = []
    notes = []
    cells = mod.cells(tier)
    names = [c.name for c in cells]
    assert len(set(names)) == len(names), "duplicate cell names"
    active_regions = []
    stale = []
    with _pool(len(cells) + len(findings)) as ex:
        kf = {ex.submit(replay_known, prop, tier, e): e for e in findings if e["status"] == "known"}
        for fut, e in kf.items():
            r = fut.result()
            if r[0] == "violation":
                known_lines.append(f"KNOWN-FINDING: property={prop} {e['region']}: {e['what']}")
                active_regions.append(e["region"])
            else:
                # the listed defect no longer reproduces: it suppresses nothing any more
                stale.append(e["region"])
                notes.append(f"known finding {e['region']} does not reproduce any more "
                             f"({r[0]}): region not excluded")
        futs = [ex.submit(run_cell, prop, tier, c.name, active_regions) for c in cells]
        results = []
        for f, c in zip(futs, cells):
            try:
                results.append(f.result())
            except BaseException as e:  # worker died
                results.append(dict(cell=c.name, bounds=c.bounds, error=f"worker failed: {e!r}",
                                    paths=0, confirmed=0, ignored=0, unknown=0, exhausted=False,
                                    decisions=0, solver_queries=0, solver_s=0.0, goals=[],
                                    goals_required=c.goals, violation=None, cex_unreproduced=None,
                                    mismatches=[], replayed=0, samples=[], functions=[],
                                    wall_s=0.0, cpu_s=0.0, excluded_regions=[], unknown_why=[]))
    for line in known_lines:
        print(line)
    violations = [r["violation"] for r in results if r["violation"]]
    problems = []
    for r in results:
        if r["error"]:
            problems.append(f"{r['cell']}: {r['error']}")
        if r["cex_unreproduced"]:
            problems.append(f"{r['cell']}: counterexample did not reproduce concretely "
                            f"(model infidelity): {json.dumps(r['cex_unreproduced'])[:600]}")
        if r["mismatches"]:
            problems.append(f"{r['cell']}: symbolic/concrete digest mismatch: "
                            f"{json.dumps(r['mismatches'][0])[:800]}")
        if r["unknown"]:
            problems.append(f"{r['cell']}: {r['unknown']} paths with unknown solver result "
                            f"{r['unknown_why']}")
        if not r["violation"] and not r["error"] and not r["exhausted"]:
            problems.append(f"{r['cell']}: decision tree not exhausted within budget "
                            f"({r['paths']} paths)")
        if r["exhausted"] and not r["violation"]:
            missing = [g for g in r["goals_required"] if g not in r["goals"]]
            if missing:
                problems.append(f"{r['cell']}: reachability goals never hit (vacuous?): {missing}")
    replay_paths = []
    os.makedirs(REPLAYS, exist_ok=True)
    for v in violations:
        blob = json.dumps(dict(property=prop, tier=tier, **v), sort_keys=True)
        h = hashlib.sha256(blob.encode()).hexdigest()[:10]
        path = os.path.join(REPLAYS, f"{prop}-{h}.json")
        with open(path, "w") as f:
            f.write(blob)
        replay_paths.append(path)
    wall = round(time.time() - t0, 3)
    funcs = sorted(set(x for r in results for x in r["functions"]))
    samples = [s for r in results for s in r["samples"]][:12]
    states = sum(r["confirmed"] for r in results)
    ev = dict(
        property_id=prop, tier=tier, seed=seed, level="model_checking",
        coverage=dict(
            states=max(states, 0), transitions=sum(r["decisions"] for r in results),
            traces_validated_against_impl=sum(r["replayed"] for r in results),
            samples=samples or [dict(note="no completed path")],
            exhaustive=all(r["exhausted"] for r in results) and not problems and not violations,
            explanation=("bounded symbolic execution of the real /repo code (CrossHair as a "
                         "library, z3 decides every branch); states = completed symbolic paths, "
                         "transitions = solver-decided branch decisions; every path's witness "
                         "model is re-executed concretely against the real code"),
            cells=[{k: r[k] for k in ("cell", "bounds", "paths", "confirmed", "ignored", "unknown",
                                      "exhausted", "solver_queries", "solver_s", "wall_s", "goals",
                                      "excluded_regions")} for r in results],
            functions_encoded=funcs,
            solver_queries=sum(r["solver_queries"] for r in results),
            solver_s=round(sum(r["solver_s"] for r in results), 3),
            cpu_s=round(sum(r.get("cpu_s", 0) for r in results), 3),
            known_findings=known_lines, inconclusive=problems, notes=notes,
            outside_the_claim=getattr(mod, "OUTSIDE", []),
            stubs=getattr(mod, "STUBS", []),
        ),
        assumptions=getattr(mod, "ASSUMPTIONS", []),
        wall_s=wall, violations=len(violations),
    )
    if states == 0:
        ev["coverage"]["states"] = 1 if violations else 0
    with open(os.path.join(EVIDENCE, f"{prop}.json"), "w") as f:
        json.dump(ev, f, indent=1, sort_keys=True)
    tot = f"cells={len(results)} paths={sum(r['paths'] for r in results)} confirmed={states} " \
          f"solver_queries={ev['coverage']['solver_queries']} solver_s={ev['coverage']['solver_s']} " \
          f"wall_s={wall}"
    if violations:
        for v, p in zip(violations, replay_paths):
            print(f"VIOLATION property={prop} replay={p}")
            print(f"  cell={v['cell']} {v['message']}")
        print(f"{prop} {tier}: FAIL {tot}")
        return 1
    if problems:
        for p in problems:
            print(f"INCONCLUSIVE property={prop} {p}")
        print(f"{prop} {tier}: INCONCLUSIVE {tot}")
        return 2
    print(f"{prop} {tier}: OK (holds for every input within the stated bounds) {tot}")
    return 0


def replay_file(path):
    from . import sx

    with open(path) as f:
        v = json.load(f)
    cell = _find_cell(v["property"], v.get("tier", "quick"), v["cell"])
    r = sx.replay(cell.fn, v["inputs"], (), role="cex")
    print(json.dumps(dict(outcome=r[0], detail=r[1]), indent=1)[:4000])
    if r[0] == "violation":
        print(f"VIOLATION property={v['property']} replay={path}")
        return 1
    return 0 if r[0] == "ok" else 2


def main(argv=None):
    argv = list(sys.argv[1:] if argv is None else argv)
    sys.path.insert(0, ROOT)
    if not argv:
        print("usage: vf check <ID> [--tier quick|thorough] | vf replay <path> | vf list")
        return 2
    cmd = argv.pop(0)
    if cmd == "check":
        prop = argv.pop(0).upper()
        tier = os.environ.get("VERIF_TIER", "quick")
        if "--tier" in argv:
            tier = argv[argv.index("--tier") + 1]
        seed = int(os.environ.get("VERIF_SEED", "0") or 0)
        try:
            return check(prop, tier, seed)
        except BaseException as e:  # harness / stub failure: never a verdict
            import traceback
            traceback.print_exc()
            print(f"INCONCLUSIVE property={prop} harness failure: {type(e).__name__}: {str(e)[:300]}")
            return 2
    if cmd == "replay":
        return replay_file(argv.pop(0))
    if cmd == "cells":
        prop = argv.pop(0).upper()
        tier = argv[argv.index("--tier") + 1] if "--tier" in argv else "quick"
        for c in _module(prop).cells(tier):
            print(c.name, json.dumps(c.bounds))
        return 0
    print("unknown command", cmd)
    return 2


if __name__ == "__main__":
    sys.exit(main())
