"""Differential validation of FakeSQLite against the real sqlite3 (DESIGN.md 1.5).

Runs a fixed script of Journaler operations (including reopen-after-close, duplicates,
renumbering, filters) once against a real SQLite file and once against FakeSQLite and compares
every observable result.  Cheap, run on every check of C08/C13/C05...; not the deciding step.
"""
import os
import shutil
import sqlite3 as real_sqlite3
import tempfile

import asyncfix.journaler as jmod
from asyncfix.errors import DuplicateSeqNoError
from asyncfix.message import MessageDirection

from . import fakesql

IN, OUT = MessageDirection.INBOUND, MessageDirection.OUTBOUND


def _m(seq, tag="x"):
    return b"8=FIX.4.4\x019=20\x0135=D\x0134=%d\x0158=%s\x0110=000\x01" % (seq, tag.encode())


def _script(J, path):
    """Runs whatever the journaler currently does on both back ends: an exception of the
    (possibly changed) code under test is an observation to compare, not a harness failure."""
    log = []
    try:
        _script_body(J, path, log)
    except Exception as e:
        log.append(("exception", type(e).__name__))
    return log


def _script_body(J, path, log):
    j = J(path)
    a = j.create_or_load("T", "S")
    b = j.create_or_load("S", "T")
    a2 = j.create_or_load("T", "S")
    log.append(("keys", a.key, b.key, a2.key, a2.next_num_in, a2.next_num_out))
    for (s, d, q, t) in [(a, OUT, 5, "a"), (a, OUT, 3, "b"), (a, IN, 5, "c"), (b, OUT, 5, "d"), (b, IN, 1, "e"),
                         (a, OUT, 9, "f"), (a, OUT, 7, "g")]:
        j.persist_msg(_m(q, t), s, d)
    try:
        j.persist_msg(_m(5, "dup"), a, OUT)
        log.append("nodup")
    except DuplicateSeqNoError:
        log.append("dup")
    j.persist_msg(_m(6, "after-dup"), a, OUT)
    log.append(("q1", j.recover_messages(a, OUT, 4, 9), j.recover_messages(a, OUT, 9, 4), j.recover_messages(b, IN, 0, 10**12)))
    log.append(("all", j.get_all_msgs(), j.get_all_msgs([a], OUT), j.get_all_msgs([b.key, a], None), j.get_all_msgs(None, IN)))
    log.append(("sess", sorted((k, v.key, v.next_num_in, v.next_num_out) for k, v in j.sessions().items())))
    j.set_seq_num(a, next_num_out=7)
    log.append(("q2", j.recover_messages(a, OUT, 0, 100), j.recover_messages(a, IN, 0, 100), a.next_num_in, a.next_num_out))
    j.persist_msg(_m(7, "new7"), a, OUT)
    j.set_seq_num(b, next_num_in=1, next_num_out=1)
    log.append(("all2", j.get_all_msgs()))
    del j  # normal close
    j = J(path)
    a = j.create_or_load("T", "S")
    b = j.create_or_load("S", "T")
    c = j.create_or_load("T3", "S")
    log.append(("reopen", a.key, a.next_num_in, a.next_num_out, b.key, b.next_num_in, b.next_num_out, c.key,
                j.get_all_msgs(), sorted((k, v.key, v.next_num_in, v.next_num_out) for k, v in j.sessions().items())))
    j.set_seq_num(a, next_num_out=2, next_num_in=9)
    del j  # close without commit after set_seq_num
    j = J(path)
    a = j.create_or_load("T", "S")
    log.append(("reopen2", a.next_num_in, a.next_num_out, j.get_all_msgs()))


SQL_SCRIPT = [
    # (statement, params) - transaction-control statements the journaler might be changed to use
    ("CREATE TABLE IF NOT EXISTS t(a INTEGER NOT NULL, b INTEGER NOT NULL, c TEXT, PRIMARY KEY (a, b))", ()),
    ("INSERT INTO t VALUES(?, ?, ?)", (1, 1, "x")),
    ("COMMIT?", ()),
    ("SAVEPOINT sp", ()), ("INSERT INTO t VALUES(?, ?, ?)", (2, 1, "y")), ("RELEASE sp", ()), ("REOPEN", ()),
    ("INSERT INTO t VALUES(?, ?, ?)", (1, 1, "dup")),
    ("SAVEPOINT sp", ()), ("INSERT INTO t VALUES(?, ?, ?)", (3, 1, "z")), ("RELEASE sp", ()), ("REOPEN", ()),
    ("SAVEPOINT sp", ()), ("INSERT INTO t VALUES(?, ?, ?)", (4, 1, "w")), ("ROLLBACK TO sp", ()), ("RELEASE sp", ()),
    ("INSERT OR IGNORE INTO t VALUES(?, ?, ?)", (2, 1, "ign")), ("INSERT OR REPLACE INTO t VALUES(?, ?, ?)", (2, 1, "rep")),
    ("COMMIT?", ()), ("UPDATE t SET c=? WHERE a = ?", ("u", 2)), ("ROLLBACK", ()), ("REOPEN", ()),
    ("BEGIN", ()), ("DELETE FROM t WHERE a >= ?", (2,)), ("COMMIT", ()), ("REOPEN", ()),
]


SQL_SCRIPT2 = [
    # integer expressions on the right-hand side of UPDATE ... SET (counter updates)
    ("CREATE TABLE IF NOT EXISTS u(k INTEGER PRIMARY KEY AUTOINCREMENT, n INTEGER DEFAULT 0, m INTEGER DEFAULT 0, UNIQUE (k))", ()),
    ("INSERT INTO u(n, m) VALUES(?, ?)", (5, 1)), ("INSERT INTO u(n, m) VALUES(?, ?)", (2, 9)),
    ("UPDATE u SET n=MAX(n, ?) WHERE k = ?", (3, 1)), ("UPDATE u SET n=MAX(n, ?) WHERE k = ?", (7, 1)),
    ("UPDATE u SET n=MIN(n, ?), m=m + ? WHERE k = ?", (1, 4, 2)), ("UPDATE u SET n=m, m=n WHERE k = ?", (2,)),
    ("UPDATE u SET n=n - ? + ?", (1, 10)), ("UPDATE u SET m=MAX(m, n)", ()), ("COMMIT?", ()),
]


def _sql_script(connect, path, script=None, select="SELECT a, b, c FROM t ORDER BY a"):
    log = []
    conn = connect(path)
    cur = conn.cursor()
    for sql, params in (script or SQL_SCRIPT):
        if sql == "REOPEN":
            cur.close()
            conn.close()
            conn = connect(path)
            cur = conn.cursor()
        elif sql == "COMMIT?":
            conn.commit()
        else:
            try:
                cur.execute(sql, params)
            except Exception as e:
                log.append(("err", type(e).__name__.split(".")[-1]))
        cur.execute(select)
        log.append((sql, [tuple(r) for r in cur], conn.in_transaction))
    conn.close()
    return log


def run():
    """Returns a short status string; raises RuntimeError on a mismatch."""
    d = tempfile.mkdtemp(prefix="vfstub", dir=os.path.dirname(os.path.dirname(os.path.abspath(__file__))))
    saved = jmod.sqlite3
    try:
        jmod.sqlite3 = real_sqlite3
        real = _script(jmod.Journaler, os.path.join(d, "real.db"))
        jmod.sqlite3 = fakesql.FakeSqlite3()
        fake = _script(jmod.Journaler, "fake.db")
        real += _sql_script(real_sqlite3.connect, os.path.join(d, "sql.db"))
        fake += _sql_script(fakesql.FakeSqlite3().connect, "sql.db")
        real += _sql_script(real_sqlite3.connect, os.path.join(d, "sql2.db"), SQL_SCRIPT2, "SELECT k, n, m FROM u ORDER BY k")
        fake += _sql_script(fakesql.FakeSqlite3().connect, "sql2.db", SQL_SCRIPT2, "SELECT k, n, m FROM u ORDER BY k")
    finally:
        jmod.sqlite3 = saved
        shutil.rmtree(d, ignore_errors=True)
    if real != fake:
        for r, f in zip(real, fake):
            if r != f:
                raise RuntimeError(f"FakeSQLite differs from sqlite3: real={r!r} fake={f!r}")
        raise RuntimeError("FakeSQLite differs from sqlite3 (length)")
    return f"FakeSQLite == sqlite3 on {len(real)} observation groups of the fixed Journaler script"


if __name__ == "__main__":
    print(run())
