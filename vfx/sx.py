"""Bounded symbolic exploration of real /repo code with CrossHair used as a library.

One *cell* = one harness function `h(I)` plus fixed structural parameters.  The driver
re-runs `h` once per path of the decision tree; every branch on a symbolic value is decided by
z3 (CrossHair's StateSpace).  The loop ends when the tree is exhausted, a violation is found, or
the budget is used up.  See DESIGN.md section 1.
"""
from __future__ import annotations

import hashlib
import json
import sys
import time
import traceback

import z3
from crosshair.core import NoTracing, Patched, ResumedTracing, deep_realize, realize
from crosshair.core_and_libs import standalone_statespace  # noqa: F401  (registers lib models)
from crosshair.libimpl.builtinslib import (
    LazyIntSymbolicStr,
    SymbolicBool,
    SymbolicBytes,
    SymbolicInt,
)
from crosshair.statespace import (
    CallAnalysis,
    RootNode,
    StateSpace,
    StateSpaceContext,
    VerificationStatus,
    context_statespace,
)
from crosshair.tracers import COMPOSITE_TRACER
from crosshair.util import CrossHairInternal, IgnoreAttempt, UnexploredPath

from . import chx

chx.install()


class Violation(AssertionError):
    """The property under check does not hold on this path."""


class ModelGap(Exception):
    """A stub met something outside its modelled subset: the run is inconclusive."""


# --------------------------------------------------------------------------- solver accounting
_SOLVER = {"queries": 0, "seconds": 0.0}
_orig_check = z3.Solver.check


def _timed_check(self, *a):
    t = time.perf_counter()
    try:
        return _orig_check(self, *a)
    finally:
        _SOLVER["queries"] += 1
        _SOLVER["seconds"] += time.perf_counter() - t


z3.Solver.check = _timed_check


# --------------------------------------------------------------------------- input providers
class _Inputs:
    """Common interface of the symbolic and the concrete input provider."""

    symbolic = False

    def __init__(self):
        self.goals = set()
        self.known = {}  # region name -> True  (regions assumed away: known findings)
        self.notes = []

    def goal(self, name):
        self.goals.add(name)

    def note(self, text):
        self.notes.append(text)

    def check(self, cond, msg):
        if not cond:
            raise Violation(msg)

    def untraced(self, fn):
        """Run a purely concrete computation (no symbolic value involved) outside the tracer."""
        return fn()

    def exclude(self, region, cond):
        """If `region` is a listed known finding: assume the inputs are outside it."""
        if region in self.known:
            self.assume(not cond)

    def str(self, name, minlen, maxlen, lo=32, hi=126, extra=None):
        n = minlen if minlen == maxlen else self.choice(name + ".len", maxlen - minlen + 1) + minlen
        return self.fstr(name, n, lo, hi, extra)

    def bytes(self, name, minlen, maxlen, lo=0, hi=255):
        n = minlen if minlen == maxlen else self.choice(name + ".len", maxlen - minlen + 1) + minlen
        return self.fbytes(name, n, lo, hi)


class Sym(_Inputs):
    symbolic = True

    def __init__(self, known=()):
        super().__init__()
        self.vals = {}
        self.known = {k: True for k in known}

    def _ints(self, name, n, lo, hi, extra=None):
        space = context_statespace()
        out = []
        for i in range(n):
            v = z3.Int(f"{name}#{i}")
            rng = z3.And(v >= lo, v <= hi)
            if extra:
                rng = z3.Or(rng, *[z3.And(v >= a, v <= b) for (a, b) in extra])
            space.add(rng)
            out.append(SymbolicInt(v))
        return out

    def int(self, name, lo, hi):
        with NoTracing():
            space = context_statespace()
            v = z3.Int(name)
            space.add(z3.And(v >= lo, v <= hi))
            r = SymbolicInt(v)
            self.vals[name] = ("int", r)
            return r

    def bool(self, name):
        with NoTracing():
            r = SymbolicBool(z3.Bool(name))
            self.vals[name] = ("bool", r)
            return r

    def choice(self, name, n):
        """Structural choice in range(n): realised at once (one subtree per value)."""
        if n <= 1:
            return 0
        with NoTracing():
            space = context_statespace()
            v = z3.Int(name)
            space.add(z3.And(v >= 0, v <= n - 1))
            r = SymbolicInt(v)
        k = realize(r)
        with NoTracing():
            self.vals[name] = ("int", k)
        return k

    def fstr(self, name, n, lo=32, hi=126, extra=None):
        with NoTracing():
            r = LazyIntSymbolicStr(self._ints(name, n, lo, hi, extra))
            self.vals[name] = ("str", r)
            return r

    def fbytes(self, name, n, lo=0, hi=255):
        with NoTracing():
            r = SymbolicBytes(self._ints(name, n, lo, hi))
            self.vals[name] = ("bytes", r)
            return r

    def assume(self, cond):
        if not cond:
            raise IgnoreAttempt("assume")

    def untraced(self, fn):
        with NoTracing():
            return fn()

    def realized(self):
        """Concrete values of every input under one model of the current path."""
        out = {}
        for name, (kind, v) in self.vals.items():
            c = deep_realize(v)
            if kind == "bytes":
                c = bytes(c).decode("latin-1")
            elif kind == "str":
                c = str(c)
            elif kind == "bool":
                c = bool(c)
            else:
                c = int(c)
            out[name] = [kind, c]
        return out


class AssumeFailed(Exception):
    pass


class Conc(_Inputs):
    """Replays recorded concrete inputs through the same harness, without CrossHair."""

    def __init__(self, vals, known=()):
        super().__init__()
        self._v = vals
        self.known = {k: True for k in known}

    def _get(self, name, kind):
        k, c = self._v[name]
        assert k == kind, (name, k, kind)
        if kind == "bytes":
            return c.encode("latin-1")
        return c

    def int(self, name, lo, hi):
        return self._get(name, "int")

    def bool(self, name):
        return self._get(name, "bool")

    def choice(self, name, n):
        if n <= 1:
            return 0
        return self._get(name, "int")

    def fstr(self, name, n, lo=32, hi=126, extra=None):
        return self._get(name, "str")

    def fbytes(self, name, n, lo=0, hi=255):
        return self._get(name, "bytes")

    def assume(self, cond):
        if not cond:
            raise AssumeFailed()


# --------------------------------------------------------------------------- digest helpers
def jsonable(x):
    if isinstance(x, bool) or x is None:
        return x
    if isinstance(x, int):
        return int(x)
    if isinstance(x, float):
        return repr(x)
    if isinstance(x, (bytes, bytearray)):
        return "b:" + bytes(x).decode("latin-1")
    if isinstance(x, str):
        return str(x)
    if isinstance(x, (list, tuple)):
        return [jsonable(i) for i in x]
    if isinstance(x, dict):
        return {str(k): jsonable(v) for k, v in x.items()}
    if isinstance(x, (set, frozenset)):
        return sorted(jsonable(i) for i in x)
    return repr(x)


def digest(obs):
    return hashlib.sha256(json.dumps(jsonable(obs), sort_keys=True).encode()).hexdigest()[:16]


# --------------------------------------------------------------------------- the exploration loop
def explore(harness, known=(), budget_s=600.0, per_path_s=60.0, max_paths=10**9, keep_samples=3):
    """Explore every path of `harness(I)`.

    Returns a dict: paths / confirmed / ignored / unknown / exhausted, witnesses
    [(inputs, observation)], goals hit, counterexample (inputs, message) or None,
    error (traceback of a harness failure) or None.
    """
    root = RootNode()
    st = dict(paths=0, confirmed=0, ignored=0, unknown=0, exhausted=False, cex=None, error=None,
              unknown_why=[], goals=set(), witnesses=[], decisions=0)
    q0, s0 = _SOLVER["queries"], _SOLVER["seconds"]
    w0 = time.time()
    c0 = time.process_time()
    while st["paths"] < max_paths:
        if time.time() - w0 > budget_s:
            break
        start = time.process_time()
        space = StateSpace(
            execution_deadline=start + per_path_s,
            model_check_timeout=per_path_s / 2,
            search_root=root,
        )
        status = None
        stop = False
        with Patched(), COMPOSITE_TRACER, NoTracing(), StateSpaceContext(space):
            I = Sym(known)
            try:
                try:
                    with ResumedTracing():
                        obs = harness(I)
                        space.detach_path()
                        inputs = I.realized()
                        obs = deep_realize(obs)
                    st["witnesses"].append((inputs, jsonable(obs), sorted(I.goals)))
                    st["goals"] |= I.goals
                    st["confirmed"] += 1
                    status = VerificationStatus.CONFIRMED
                except Violation as e:
                    with ResumedTracing():
                        space.detach_path()
                        inputs = I.realized()
                    st["cex"] = (inputs, str(deep_realize(str(e))))
                    status = VerificationStatus.REFUTED
                    stop = True
                except ModelGap as e:
                    st["error"] = "ModelGap: " + str(e)
                    status = VerificationStatus.UNKNOWN
                    stop = True
                except (Exception, CrossHairInternal) as e:  # harness or stub failure, not a verdict
                    tb = "".join(traceback.format_exception(e)[-8:])
                    try:
                        with ResumedTracing():
                            space.detach_path()
                            inputs = I.realized()
                    except BaseException:
                        inputs = None
                    st["error"] = f"harness exception on inputs {inputs}:\n{tb}"
                    status = VerificationStatus.UNKNOWN
                    stop = True
            except IgnoreAttempt:
                st["ignored"] += 1
                status = None
            except UnexploredPath as e:
                st["unknown"] += 1
                if len(st["unknown_why"]) < 5:
                    st["unknown_why"].append(f"{type(e).__name__}: {e}")
                status = VerificationStatus.UNKNOWN
            st["decisions"] += len(space.choices_made)
            _a, exhausted = space.bubble_status(CallAnalysis(status))
        st["paths"] += 1
        if stop:
            break
        if exhausted:
            st["exhausted"] = True
            break
    st["solver_queries"] = _SOLVER["queries"] - q0
    st["solver_s"] = round(_SOLVER["seconds"] - s0, 3)
    st["wall_s"] = round(time.time() - w0, 3)
    st["cpu_s"] = round(time.process_time() - c0, 3)
    st["goals"] = sorted(st["goals"])
    return st


# --------------------------------------------------------------------------- concrete replay
class _FnCollector:
    """Collects the /repo functions entered while replaying witnesses concretely."""

    def __init__(self, root=None):
        import os
        self.root = root or (os.environ.get("VERIF_REPO", "/repo").rstrip("/") + "/")
        self.seen = set()

    def __call__(self, frame, event, arg):
        if event == "call":
            co = frame.f_code
            fn = co.co_filename
            if fn.startswith(self.root):
                self.seen.add(f"{fn[len(self.root):]}:{co.co_qualname}")

    def __enter__(self):
        sys.setprofile(self)
        return self

    def __exit__(self, *a):
        sys.setprofile(None)


def replay(harness, inputs, known=(), role="witness"):
    """Run the harness on concrete inputs against the real code, no CrossHair.

    Returns ("ok", observation, goals) | ("violation", message) | ("assume", None) |
    ("error", traceback)
    """
    I = Conc(inputs, known)
    I.role = role  # "witness" (per-path validation), "cex" (counterexample), "known" (known finding)
    try:
        obs = harness(I)
        return ("ok", jsonable(obs), sorted(I.goals))
    except Violation as e:
        return ("violation", str(e))
    except AssumeFailed:
        return ("assume", None)
    except Exception as e:
        return ("error", "".join(traceback.format_exception(e)[-8:]))
